#!/bin/bash
. /verif/bin/env.sh
build_verifcheck race || exit 2
mkdir -p /verif/.build-thorough /dev/shm/thorough5
cp /verif/.build/verifcheck /verif/.build/verifcheck-race /verif/.build-thorough/
export VERIF_OUT=/dev/shm/thorough5-out
run(){ id=$1; BIN=/verif/.build-thorough/verifcheck; [ $id = C19 ] && BIN=/verif/.build-thorough/verifcheck-race
  start=$(date +%s); nice -n 10 $BIN -prop $id -tier thorough > /dev/shm/thorough5/$id.out 2>&1; rc=$?
  echo "$id exit=$rc secs=$(( $(date +%s) - start )) $(tail -1 /dev/shm/thorough5/$id.out | cut -c1-220)" >> /dev/shm/thorough5/summary.txt; }
run C08; run C14; run C15
run C01 & run C02 & run C20 & wait
run C13 & run C03 & run C11 & wait
run C12 & run C17 & run C09 & run C07 & wait
echo ALLDONE >> /dev/shm/thorough5/summary.txt
