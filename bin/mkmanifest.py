#!/usr/bin/env python3
"""Regenerates /verif/MANIFEST.json from the table below (kept next to the code so that the manifest,
the drivers and DESIGN.md cannot drift apart silently)."""
import json, subprocess, sys

CLAIMED = {
 # id: (technique, level text, level note, design ref)
 "C01": ("crash-point enumeration: every prefix of the recorded I/O trace (plus every subset of a flush-all run and torn variants of the last write) of every short transaction history, each image recovered by the real start-up path",
         "Every history of 1-2 (thorough 1-3) explicit transactions x 1-2 statements, all statement-granularity interleavings, commits/aborts/conflict aborts/forced checkpoints, over 4-6 seeds and 2 pool sizes is executed on the real engine under an I/O recorder; for EVERY crash point the image is rebuilt, recovered by NewSamehadaDB, scanned (heap and index path), probed with a new insert, and compared with the admissible committed states of a row model.",
         "crash = prefix of the DiskManager call sequence (log writes synced, page writes in issue order, any subset of a flush-all run), last write optionally torn; seeds are outside the quantifier; torn heap-page writes are a listed known finding", "§4 C01"),
 "C02": ("the same crash-point enumeration as C01, verdict on the upper bound of the admissible set (nothing of a loser visible, commit-in-progress atomic)",
         "Same exhaustive exploration as C01 (all crash points from the first I/O event after the seed, including points inside statements, commit, abort, eviction and checkpoint); a recovered table must equal the committed model state before or after the commit in progress; differences are attributed to C02 when they are effects of a transaction that had not committed.",
         "as C01", "§4 C02"),
 "C03": ("explicit-state search over statement sequences inside a victim transaction ended by explicit or conflict abort, differential snapshot before Begin / after Abort, on the real database, per index kind",
         "For each of four index kinds and two seeds every statement sequence (<=2, thorough <=3) over insert / in-place, growing(relocating), shrinking, key-changing update / delete / same row twice inside the victim, ended by an explicit abort or by a lock conflict with a reading transaction, preceded by a committed statement and followed by committed inserts re-using the space, is run on the real engine; full scan plus every index point/range answer before Begin must equal the answers after Abort.",
         "hash index without UPDATE and reached through the plan API, unique index without duplicate keys, indexed varchar <= 700 bytes (declared limitations)", "§4 C03"),
 "C04": ("explicit-state search over all statement-granularity interleavings of 2-3 transaction programs (Engine A) + preemption-bounded schedule enumeration of real goroutines running the statements under a controlled scheduler (Engine C), against a row model with per-transaction pending images",
         "Part A: every interleaving of two transactions x <=2 statements (thorough: 3 statements / 3 transactions) over 9 statement shapes (reads by sequential scan, index point, index range; insert, deletes, in-place / key-changing / growing-relocating updates), every commit/abort outcome: a statement of a non-aborted transaction must return the model answer over committed data + own pending writes; a write hitting a row with another transaction's pending change must abort. Part B: 7 (thorough 10) two/three-goroutine scenarios, every schedule with <=2 (thorough 3) preemptions at lock/latch granularity: answers and final table must be explainable by a serial order of the committed transactions (unique written values).",
         "aborts are always acceptable; atomics are not scheduling points; RW-latches modelled without writer preference; conflict-directed preemption points", "§4 C04"),
 "C05": ("as C04: statement-granularity interleavings (Engine A) + preemption-bounded schedules of real goroutines (Engine C); oracle = brute force over serial orders of the committed transactions",
         "Programs that cannot create phantoms (reads by key through point/range/scan path and of the whole table, writes to the non-key column of rows addressed by key, DELETE by key, unique written values): every statement-granularity interleaving of 2 transactions x <=2 (thorough 3; 3 transactions x 2) statements, and every schedule with <=2 (thorough 3) preemptions of lost-update / write-skew / repeatable-read / range-read-vs-writer scenarios run as real goroutines: some serial order of the committed transactions must reproduce all their reads and the final table.",
         "as C04; the observations each transaction has made are part of the state key (the oracle is path-dependent)", "§4 C05"),
 "C06": ("bounded-exhaustive input enumeration on the real SQL path: all predicate trees up to 2 (thorough 3) leaves x adversarial and all small table contents x select lists x DML forms, every cost-minimal plan (plan-choice hook), against a row model",
         "For three schemas (INT/INT, INT/FLOAT, INT/VARCHAR): adversarial contents (duplicates, boundary integers, -0.0/denormal/huge floats, empty/quoted/600-byte strings, 2-page table) with ALL predicate trees over = <> < <= > >= AND/OR up to the leaf bound, plus all multisets of <=2 (thorough <=3) rows with all single-leaf predicates and a stride of the deeper ones; every select list; UPDATE with every SET order, DELETE, single/multi-row and reordered-column INSERT, adversarial literal forms. Each statement is executed on the real engine under every cost-minimal plan and compared with the row model.",
         "supported subset as stated in the evidence file (column op constant, no NULL through SQL, no ORDER BY); statistics in their initial state", "§4 C06"),
 "C07": ("explicit-state search over committed/aborted transaction and restart histories; at every quiescent point plan-level index scans are compared with scan-path reads of the heap",
         "Every history up to the depth bound of auto-commit statements, 1-2 statement transactions ended by commit or abort, clean and crash restarts, per index kind (skip list, unique skip list, B-tree, hash) and seed; whenever no transaction is open every key of the domain is looked up through the index (plan API, so the index is really used) and compared with the rows of the heap holding that key; range scans must return exactly the in-range rows, once, in key order; unbounded index scan = table.",
         "as C03; crash restarts at quiescent points only", "§4 C07"),
 "C08": ("invariant monitor evaluated at every event of the recorded I/O trace of every explored history (the C01/C02 history space)",
         "For every history of the C01/C02 space (all pool sizes, checkpoint placements, eviction patterns they contain) the complete DiskManager call trace is checked event by event: a heap page write never carries a page LSN beyond the last complete record on stable storage; every row slot and next-page link of a written heap page that differs from the page's previous durable image is spoken about by a log record that has reached stable storage since (content rule: catches changes that do not move the page LSN); a writing transaction's commit returns only after its COMMIT record is durable, the log file always parses (with the repository's own record parser) into complete records with per-transaction increasing LSNs and intact prevLSN chains.",
         "heap pages = table heap chains of user tables; the per-transaction order clause is checked within one life of the engine (a restart reuses transaction ids), the page-LSN and content rules also over the I/O trace of every recovery started from a crash point that ends in a whole log or page write; concurrent committing writers under the scheduler (Engine C)", "§4 C08"),
 "C09": ("explicit-state search over DDL/DML/clean-restart histories on the real database, differential battery before/after each restart",
         "Every history up to the depth bound of CREATE TABLE, inserts (incl. multi-page growth), in-place/key-changing/relocating updates, deletes and Shutdown()+reopen cycles is run on the real engine (pool 32 KB and 128 KB, 3 seeds); a battery of full scan, every point key and every range through index path and scan path must give identical answers immediately before shutdown and after reopen; later statements are compared with a row model.",
         "auto-commit statements, skip-list indexes (SQL DDL); failures that reproduce without the restart are not attributed to C09", "§4 C09"),
 "C10": ("explicit-state search over CREATE TABLE/DML/clean-and-crash-restart histories on the real database against a catalogue+row model",
         "Every history up to the depth bound over 3 table schemas (arity 1-3, INT/FLOAT/VARCHAR) created in any order, DML on any table, clean and crash restarts (2, thorough 3) is run on the real engine; after every step following a restart each table must be reachable by name with its schema and its own rows, table ids and first pages pairwise distinct, no phantom tables.",
         "crash restart = process death at a statement boundary (in-statement crash points are C01/C02); pool 128 KB", "§4 C10"),
 "C11": ("bounded-exhaustive input enumeration of 2- and 3-table joins on the real SQL path x statistics states x every plan reachable through the optimizer's tie-breaks (plan-choice hook), against a naive nested-loop evaluation",
         "All pairs of small table contents (0-2, thorough 0-3 rows over a 3-value join key domain: duplicates, missing keys, empty tables), every single-equality ON over the 4 column pairs (also written in WHERE), no / 1 / 2-leaf conjunctive filters over either table, several select lists, cross joins, 3-table chains; statistics never updated / current / stale; every distinct plan found by breadth-first enumeration of tie-break deviations (hash join both orientations, index join, nested loop, with/without residual selection) is executed and compared with the naive evaluation.",
         "README's supported join form; plan enumeration is budgeted (48 planning runs per query, breadth-first: all single deviations from the canonical plan are always covered); NULL keys not reachable through SQL", "§4 C11"),
 "C12": ("preemption-bounded schedule enumeration of client goroutines calling the real ExecuteSQL, with the RequestManager loop, worker goroutines, channels and mutexes under a controlled scheduler; per-schedule linearizability check against a sequential table model; the 100-slot request channel is additionally modelled at capacity 1 and 2 (capacity+2 clients) and what that finds is replayed by one directed schedule against the real capacity with 102 clients",
         "2-3 client goroutines x 1-2 calls (reads and multi-row updates over overlapping key ranges of a 4-row table, unique written values); every schedule with <=1 (thorough <=2) preemptions and <=2 non-preemptive deviations at lock/latch/channel granularity is executed on the real code; each call must return exactly once with a result of its own statement, the history must be linearizable respecting real time, the final table must match, no deadlock and no livelock. DDL scenario: two (thorough three) clients each CREATE their own table, insert into it and read it back concurrently - every call answers its own statement, afterwards the tables have pairwise distinct ids and first pages and their own rows.",
         "go/chan constructs of lib/samehada rewritten mechanically to scheduler calls at check time; deviation bounds as stated (retry loops make the unbounded space cyclic); atomics are not scheduling points", "§4 C12"),
 "C13": ("explicit-state search over all new/fetch/write/unpin/flush/flush-all/deallocate sequences on the real BufferPoolManager (pool sizes 1-3, in-memory and file disk manager, 2 users), merged on the pool's private state + preemption-bounded schedule enumeration of 2-3 real goroutines on 2-3 frames under a controlled scheduler",
         "Every operation sequence up to the depth bound is executed on the real buffer pool; after every call the page table, frames, pin counts, resident bytes and on-disk bytes (read back through the disk manager) are compared with a map model page->latest bytes: fetch returns the latest bytes, pinned pages keep their frame, frames are never shared, new ids are never live ids, a clean unpinned resident page equals its disk image. Concurrent part: every schedule with <=3 (thorough 5) preemptions of 9 (12) small programs (fetch/write/unpin, new page, temp page + deallocation, FlushPage, pin held across the other thread's evictions); every thread writes its own byte lane, so the final content of every page - through the pool and on disk - is determined.",
         "API contract restrictions listed in the evidence file (creator initialises and unpins dirty; deallocation only in the two call patterns the code base uses); depth bound; concurrent scenarios keep frames >= possible simultaneous pins (an exhausted pool panics by design)", "§4 C13"),
 "C14": ("explicit-state search over sequences of one statement per plan shape (all equal-cost join plans via the plan-choice hook) on the real database, pin vector of all frames compared before/after each statement",
         "Every sequence (<=3, thorough <=4) of 16 statement shapes (seq scan, index point/range, selection, projection, hash/index join in every equal-cost variant, page-allocating insert, relocating and key-changing update, delete, refused statements, statements aborted by a lock conflict) on tables of 0 rows / 3 rows / 2 pages with pool 128 KB and 64 KB; after each statement no frame may be pinned that was not pinned before it.",
         "DDL only in the seed; every SELECT is also run below a plan-level LIMIT 1 node (the parent stops pulling early; LIMIT is not planned from SQL); pin-count growth on pages that are pinned for the life of an index (skip-list start node) is reported as a statistic, not a violation (no additional frame is held)", "§4 C14"),
 "C15": ("explicit-state search over all operation sequences on the real TablePage, merged on raw page bytes, against a slot map model",
         "Every sequence of insert/update(grow, shrink, rollback flavour)/mark-delete/apply-delete/rollback-delete up to the depth bound, with row sizes from 1 byte to exactly-fills-the-page and one-too-big, is executed on the real slotted page; after every operation the raw 4096 bytes are compared with a slot->bytes model (row bytes, disjointness, bounds, free-space pointer, slot array, read path).",
         "recovery-phase transaction (no lock manager), logging off; operations restricted to the call patterns TableHeap/Abort/recovery use; depth and slot-count bounds in the evidence file", "§4 C15"),
 "C16": ("explicit-state search of the complete reachable state space of the real LockManager (3 txns x 2 rows) + exhaustive schedule enumeration of 2-3 real goroutines under a controlled scheduler",
         "Every reachable state of the real lock manager for 3 transactions x 2 rows is visited with every request from it and compared with a holder-set model (not depth-bounded: the search stops when no new state appears); every interleaving of 2-3 goroutines x 2 requests is run on the real code and must equal a sequential order of the same calls.",
         "3 txns x 2 rows; transaction end through the real Commit/Abort with empty write sets; LockUpgrade only on rows held shared (caller contract); atomics are not scheduling points", "§4 C16"),
 "C17": ("explicit-state search over operation sequences on the four real index containers against a sorted multimap + preemption-bounded schedule enumeration of concurrent operations on skip-list/unique/hash indexes",
         "Sequential: every sequence of <=3 (thorough 4) insert/delete/update operations over 5-6 keys x 3 row ids from empty and pre-filled (node-boundary) seeds, for skip list, unique skip list, B-tree and hash index with integer, float and varchar keys and three node-level patterns; after EVERY operation every key is looked up and every range (incl. open ends) is scanned and compared (contents, order, exactly-once, pins). Concurrent: 2-goroutine scenarios (split, node removal, lookup/range during insert/delete) on skip/unique/hash indexes, every schedule with <=4 (thorough 6) preemptions; results must equal a sequential order of the operations, untouched entries are found by every scanner.",
         "caller contracts and key-length limits as listed in the evidence file; the B-link tree is driven sequentially only (its spin latches are outside the scheduler)", "§4 C17"),
 "C18": ("exhaustive enumeration of the input domains: all 2^32 integers and all non-NaN float32 bit patterns walked in numeric order (adjacent pairs), all strings over a 6-byte alphabet up to length 4/5 (all pairs), all row ids over byte lanes",
         "The whole finite domain is enumerated on the real exported encode/decode/pack functions (thorough: every int32 and every float32; quick: windows around every byte-lane/sign/exponent boundary plus a stride): round trip, order of adjacent values (total order by transitivity), same-key adjacency (largest-rid entry of a key sorts before smallest-rid entry of the next key), ScanKey window containment, B-tree zero padding.",
         "containers compare encoded keys bytewise; strings without NUL; the B-tree's 6-byte rid squeeze is mirrored here and exercised for real in C17", "§4 C18"),
 "C19": ("preemption-bounded schedule enumeration of the concurrent harness bodies (C04/C05/C12/C17 scenarios, writer||writer scenarios, two goroutines on a buffer pool of one or two frames, DML next to checkpoint and statistics pass) in a -race build; the Go race detector is the per-schedule oracle, scheduler hand-offs hidden from it",
         "Every schedule with <=1 (thorough <=2) preemptions of ~45 two/three-goroutine scenarios is executed on the real engine built with -race; hand-offs of the cooperative scheduler are wrapped in runtime.RaceDisable/Enable and the scheduler's own book-keeping is excluded from instrumentation (//go:norace), so the detector sees exactly the program's own synchronisation; goroutine creation and thread exit remain real happens-before edges. A report counts iff both access sites lie in the data path; findings are identified by the pair of functions.",
         "happens-before race detection: a race is reported only if the racing accesses occur in an explored schedule; reports outside the data path are listed, not judged; the maintenance scenario contains map-iteration nondeterminism (tolerated, reported as not exhaustive)", "§4 C19"),
 "C20": ("nested crash-point enumeration: every prefix (and flush-run subset, torn log tail) of the recovery run's own I/O trace, for every first-generation crash image",
         "For every C01 history with <=1 (thorough <=2) DML statements and every first-generation crash point whose recovery is correct, the recovery itself is run under the I/O recorder; every crash point inside it yields a second-generation image which is recovered again and must give exactly the tables of the uninterrupted recovery (third generation in thorough mode).",
         "as C01; torn page writes excluded (known finding of C01); differential oracle against the uninterrupted recovery of the same image", "§4 C20"),
}

ALL = ["C%02d" % i for i in range(1, 21)]
NOT_YET = "check not built yet in this round (framework under construction; see DESIGN.md §9 for the build order)"

def main():
    checks = []
    for pid in ALL:
        if pid not in CLAIMED: continue
        tech, text, note, ref = CLAIMED[pid]
        checks.append({
            "property_id": pid,
            "quick_cmd": f"bin/check {pid} quick",
            "thorough_cmd": f"bin/check {pid} thorough",
            "evidence_file": f"/verif/evidence/{pid}.json",
            "replay_cmd_template": "bin/replay {path}",
            "engine": "harness",
            "level_claimed": {"category": "model_checking", "text": text, "design_ref": ref},
            "level_note": note,
            "technique": tech,
        })
    hooks = []
    try:
        out = subprocess.run(["git", "-C", "/repo", "log", "--format=%H %s"], capture_output=True, text=True).stdout
        for line in out.splitlines():
            h, _, subj = line.partition(" ")
            if subj.startswith("verif hook"):
                hooks.append(h)
    except Exception:
        pass
    m = {
        "version": 1,
        "setup_cmd": "bin/setup",
        "hooks": {
            "guard": "verif",
            "enable": "go build -tags verif -overlay /verif/.build/ov/overlay.json (overlay generated from the current tree by harness/cmd/mkoverlay)",
            "baseline_off_cmd": "cd /repo/lib && GOFLAGS=-mod=mod go test -vet=off -count=1 -timeout 25m ./... ; cd /repo/server && GOFLAGS=-mod=mod go test -vet=off -count=1 -timeout 25m ./...",
            "source_commits": hooks,
            "add_only": True,
        },
        "engines": [
            {"name": "harness", "path": "/verif/harness", "serves_properties": sorted(CLAIMED),
             "kind_free_text": "hand-written Go model checker: Engine A explicit-state BFS over operation sequences against reference models (core/seq.go), Engine B crash-point/torn-write enumerator over recorded I/O traces (core/crash), Engine C cooperative scheduler + preemption-bounded DFS over real goroutines (shim/vsched, core/sched.go); the code under test is the repository built through a build overlay"},
        ],
        "checks": checks,
        "not_applicable": [{"property_id": p, "reason": NOT_YET} for p in ALL if p not in CLAIMED],
        "notes": "All checks rebuild from /repo's working tree on every invocation (bin/check). known_findings.txt lists genuine defects by signature.",
    }
    json.dump(m, open("/verif/MANIFEST.json", "w"), indent=1)
    print("MANIFEST.json:", len(checks), "checks,", len(m["not_applicable"]), "not applicable")

main()
