#!/usr/bin/env python3
"""Regenerates /verif/MANIFEST.json from the table below (kept next to the code so that the manifest,
the drivers and DESIGN.md cannot drift apart silently)."""
import json, subprocess, sys

CLAIMED = {
 # id: (technique, level text, level note, design ref)
 "C13": ("explicit-state search over all new/fetch/write/unpin/flush/deallocate sequences on the real BufferPoolManager (pool sizes 1-3, in-memory and file disk manager, 2 users), merged on the pool's private state",
         "Every operation sequence up to the depth bound is executed on the real buffer pool; after every call the page table, frames, pin counts, resident bytes and on-disk bytes (read back through the disk manager) are compared with a map model page->latest bytes: fetch returns the latest bytes, pinned pages keep their frame, frames are never shared, new ids are never live ids.",
         "API contract restrictions listed in the evidence file (creator initialises and unpins dirty; deallocation only in the two call patterns the code base uses); single-threaded; depth bound", "§4 C13"),
 "C15": ("explicit-state search over all operation sequences on the real TablePage, merged on raw page bytes, against a slot map model",
         "Every sequence of insert/update(grow, shrink, rollback flavour)/mark-delete/apply-delete/rollback-delete up to the depth bound, with row sizes from 1 byte to exactly-fills-the-page and one-too-big, is executed on the real slotted page; after every operation the raw 4096 bytes are compared with a slot->bytes model (row bytes, disjointness, bounds, free-space pointer, slot array, read path).",
         "recovery-phase transaction (no lock manager), logging off; operations restricted to the call patterns TableHeap/Abort/recovery use; depth and slot-count bounds in the evidence file", "§4 C15"),
 "C16": ("explicit-state search of the complete reachable state space of the real LockManager (3 txns x 2 rows) + exhaustive schedule enumeration of 2-3 real goroutines under a controlled scheduler",
         "Every reachable state of the real lock manager for 3 transactions x 2 rows is visited with every request from it and compared with a holder-set model (not depth-bounded: the search stops when no new state appears); every interleaving of 2-3 goroutines x 2 requests is run on the real code and must equal a sequential order of the same calls.",
         "3 txns x 2 rows; transaction end through the real Commit/Abort with empty write sets; LockUpgrade only on rows held shared (caller contract); atomics are not scheduling points", "§4 C16"),
 "C18": ("exhaustive enumeration of the input domains: all 2^32 integers and all non-NaN float32 bit patterns walked in numeric order (adjacent pairs), all strings over a 6-byte alphabet up to length 4/5 (all pairs), all row ids over byte lanes",
         "The whole finite domain is enumerated on the real exported encode/decode/pack functions (thorough: every int32 and every float32; quick: windows around every byte-lane/sign/exponent boundary plus a stride): round trip, order of adjacent values (total order by transitivity), same-key adjacency (largest-rid entry of a key sorts before smallest-rid entry of the next key), ScanKey window containment, B-tree zero padding.",
         "containers compare encoded keys bytewise; strings without NUL; the B-tree's 6-byte rid squeeze is mirrored here and exercised for real in C17", "§4 C18"),
}

ALL = ["C%02d" % i for i in range(1, 21)]
NOT_YET = "check not built yet in this round (framework under construction; see DESIGN.md §9 for the build order)"

def main():
    checks = []
    for pid in ALL:
        if pid not in CLAIMED: continue
        tech, text, note, ref = CLAIMED[pid]
        checks.append({
            "property_id": pid,
            "quick_cmd": f"bin/check {pid} quick",
            "thorough_cmd": f"bin/check {pid} thorough",
            "evidence_file": f"/verif/evidence/{pid}.json",
            "replay_cmd_template": "bin/replay {path}",
            "engine": "harness",
            "level_claimed": {"category": "model_checking", "text": text, "design_ref": ref},
            "level_note": note,
            "technique": tech,
        })
    hooks = []
    try:
        out = subprocess.run(["git", "-C", "/repo", "log", "--format=%H %s"], capture_output=True, text=True).stdout
        for line in out.splitlines():
            h, _, subj = line.partition(" ")
            if subj.startswith("verif hook"):
                hooks.append(h)
    except Exception:
        pass
    m = {
        "version": 1,
        "setup_cmd": "bin/setup",
        "hooks": {
            "guard": "verif",
            "enable": "go build -tags verif -overlay /verif/.build/ov/overlay.json (overlay generated from the current tree by harness/cmd/mkoverlay)",
            "baseline_off_cmd": "cd /repo/lib && GOFLAGS=-mod=mod go test -vet=off -count=1 -timeout 25m ./... ; cd /repo/server && GOFLAGS=-mod=mod go test -vet=off -count=1 -timeout 25m ./...",
            "source_commits": hooks,
            "add_only": True,
        },
        "engines": [
            {"name": "harness", "path": "/verif/harness", "serves_properties": sorted(CLAIMED),
             "kind_free_text": "hand-written Go model checker: Engine A explicit-state BFS over operation sequences against reference models (core/seq.go), Engine B crash-point/torn-write enumerator over recorded I/O traces (core/crash), Engine C cooperative scheduler + preemption-bounded DFS over real goroutines (shim/vsched, core/sched.go); the code under test is the repository built through a build overlay"},
        ],
        "checks": checks,
        "not_applicable": [{"property_id": p, "reason": NOT_YET} for p in ALL if p not in CLAIMED],
        "notes": "All checks rebuild from /repo's working tree on every invocation (bin/check). known_findings.txt lists genuine defects by signature.",
    }
    json.dump(m, open("/verif/MANIFEST.json", "w"), indent=1)
    print("MANIFEST.json:", len(checks), "checks,", len(m["not_applicable"]), "not applicable")

main()
