#!/usr/bin/env python3
# rewrites section 14 of DESIGN.md from /verif/seeded/*/meta.json
import subprocess, re
tbl = subprocess.run(['/verif/bin/seedtable.py'], capture_output=True, text=True).stdout
p = '/verif/DESIGN.md'
s = open(p).read()
head = '## 14. Seeded changes from independent sub-agents\n'
i = s.index(head)
intro = '''
Each change below was written by a fresh sub-agent that saw only the text of one property and a scratch
worktree of the repository (nothing from `/verif`). It was kept only after I had confirmed in a scratch
worktree that the tree builds with it, that the existing tests of the touched packages still pass, and
that its demonstration fails with / passes without the change (`verify.txt` in each directory). The
change was then applied to `/repo` (`bin/seedtest`), the quick checks were run, and `/repo` was restored.
"first run" says whether the check as it stood at that moment reported it; where it did not, the check
was strengthened (what was added is in the last column) and the change re-run. Every listed detection
was reported on every run.

'''
import json, glob, os
tot = miss = notown = nowhere = 0
for f in sorted(glob.glob('/verif/seeded/*/meta.json')):
    m = json.load(open(f)); tot += 1
    own = m['caught_by'].get(m['property'], '')
    neg = lambda t: t.lower().startswith(('not caught', 'not reported', 'missed and'))
    if m.get('initially_missed'): miss += 1
    if own == '' or neg(own):
        notown += 1
        if all(neg(v) for v in m['caught_by'].values()): nowhere += 1
summary = (f"**Summary.** {tot} changes kept; {tot - miss} were reported by the checks as they stood at the time, {miss} were "
           f"missed at first (by the check of the property they were written against). After strengthening, {tot - notown} are reported by "
           f"the check of their own property, {notown - nowhere} more only by the check of a neighbouring property (stated in the row), "
           f"and {nowhere} by no check (the row says why). `seeded/RESULTS.md` is the detection matrix of the last `bin/seedall` runs; "
           f"`seeded/REJECTED.md` lists candidates that were not kept because the pinned suite fails with them.\n\n")
s = s[:i] + head + intro + summary + tbl
open(p, 'w').write(s)
