#!/usr/bin/env python3
# rewrites section 14 of DESIGN.md from /verif/seeded/*/meta.json
import subprocess, re
tbl = subprocess.run(['/verif/bin/seedtable.py'], capture_output=True, text=True).stdout
p = '/verif/DESIGN.md'
s = open(p).read()
head = '## 14. Seeded changes from independent sub-agents\n'
i = s.index(head)
intro = '''
Each change below was written by a fresh sub-agent that saw only the text of one property and a scratch
worktree of the repository (nothing from `/verif`). It was kept only after I had confirmed in a scratch
worktree that the tree builds with it, that the existing tests of the touched packages still pass, and
that its demonstration fails with / passes without the change (`verify.txt` in each directory). The
change was then applied to `/repo` (`bin/seedtest`), the quick checks were run, and `/repo` was restored.
"first run" says whether the check as it stood at that moment reported it; where it did not, the check
was strengthened (what was added is in the last column) and the change re-run. Every listed detection
was reported on every run.

'''
s = s[:i] + head + intro + tbl
open(p, 'w').write(s)
