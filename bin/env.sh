# shared environment + build step for all check commands
export GOFLAGS=-mod=mod GOPROXY=off GOSUMDB=off GOTOOLCHAIN=local GONOSUMDB=* GONOSUMCHECK=1 GOFLAGS="-mod=mod"
export VERIF_REPO="${VERIF_REPO:-/repo}"
mkdir -p /verif/.build
build_verifcheck() {
  (
    flock 9
    cd /verif/harness || exit 2
    if [ ! -x /verif/.build/mkoverlay ] || [ cmd/mkoverlay/main.go -nt /verif/.build/mkoverlay ]; then
      go build -o /verif/.build/mkoverlay ./cmd/mkoverlay || exit 2
    fi
    /verif/.build/mkoverlay -repo "$VERIF_REPO" -shim /verif/harness/shim -out /verif/.build/ov >/verif/.build/mkoverlay.log 2>&1 || { cat /verif/.build/mkoverlay.log >&2; exit 2; }
    go build -tags verif -overlay /verif/.build/ov/overlay.json -o /verif/.build/verifcheck ./cmd/verifcheck || exit 2
    if [ "${1:-}" = "C19" ] || [ "${1:-}" = "race" ]; then
      # -race switches on checkptr instrumentation as well; the library casts page buffers to structs with
      # unsafe.Pointer (hash table pages), which checkptr turns into a fatal error that has nothing to do
      # with data races: checkptr is switched off for the race build
      go build -race -gcflags=all=-d=checkptr=0 -tags verif -overlay /verif/.build/ov/overlay.json -o /verif/.build/verifcheck-race ./cmd/verifcheck || exit 2
    fi
  ) 9>/verif/.build/lock
}
