# shared environment + build step for all check commands
export GOFLAGS=-mod=mod GOPROXY=off GOSUMDB=off GOTOOLCHAIN=local GONOSUMDB=* GONOSUMCHECK=1 GOFLAGS="-mod=mod"
export VERIF_REPO="${VERIF_REPO:-/repo}"
export VERIF_BUILD="${VERIF_BUILD:-/verif/.build}"
mkdir -p $VERIF_BUILD
build_verifcheck() {
  (
    flock 9
    cd /verif/harness || exit 2
    if [ ! -x $VERIF_BUILD/mkoverlay ] || [ cmd/mkoverlay/main.go -nt $VERIF_BUILD/mkoverlay ]; then
      go build -o $VERIF_BUILD/mkoverlay ./cmd/mkoverlay || exit 2
    fi
    $VERIF_BUILD/mkoverlay -repo "$VERIF_REPO" -shim /verif/harness/shim -out $VERIF_BUILD/ov >$VERIF_BUILD/mkoverlay.log 2>&1 || { cat $VERIF_BUILD/mkoverlay.log >&2; exit 2; }
    go build -tags verif -overlay $VERIF_BUILD/ov/overlay.json -o $VERIF_BUILD/verifcheck ./cmd/verifcheck || exit 2
    if [ "${1:-}" = "C19" ] || [ "${1:-}" = "race" ]; then
      # -race switches on checkptr instrumentation as well; the library casts page buffers to structs with
      # unsafe.Pointer (hash table pages), which checkptr turns into a fatal error that has nothing to do
      # with data races: checkptr is switched off for the race build
      go build -race -gcflags=all=-d=checkptr=0 -tags verif -overlay $VERIF_BUILD/ov/overlay.json -o $VERIF_BUILD/verifcheck-race ./cmd/verifcheck || exit 2
    fi
  ) 9>$VERIF_BUILD/lock
}
