#!/usr/bin/env python3
"""Rewrites the block between <!-- thorough:begin --> and <!-- thorough:end --> of DESIGN.md from the summaries of
the background thorough loops kept in /verif/thorough-logs/ (last completed run per property)."""
import re,glob
rows={}
def load(path,label):
    try:
        for l in open(path):
            m=re.match(r'(C\d+) exit=(\d+) secs=(\d+) .*states=(\d+) transitions=(\d+) traces=(\d+) outcomes=(\d+) exhaustive=(\w+) violations\(unlisted\)=(\d+) known=(\d+)',l)
            if m: rows[m.group(1)]=(label,)+m.groups()[1:]
    except FileNotFoundError: pass
load('/verif/thorough-logs/round1-summary.txt','round 1 (25 Sep evening)')
load('/verif/thorough-logs/round2-summary.txt','round 2 (26 Sep 01:52-08:50)')
load('/verif/thorough-logs/round3-summary.txt','round 3 (26 Sep 08:50)')
load('/verif/thorough-logs/round4-summary.txt','round 4 (26 Sep 09:46-15:18)')
load('/verif/thorough-logs/round5-summary.txt','round 5 (26 Sep 15:46 ff., final code; groups of 3-4 checks in parallel)')
out=["<!-- thorough:begin -->","","Thorough tier, last completed run per property (sequential background loop `bin/thorough2.sh` on the shared machine, binaries built when the round started; `exit` is the exit code of the check; a run that reaches its time budget ends with exit 0 and `exhaustive = no`; summaries in `thorough-logs/`):","","| id | run | exit | wall | states | transitions | executions | outcomes | exhaustive | unlisted violations / known findings |","|---|---|---|---|---|---|---|---|---|---|"]
for k in sorted(rows):
    lab,ex,secs,st,tr,tc,oc,exh,v,kn=rows[k]
    out.append(f"| {k} | {lab} | {ex} | {int(secs)//60} min {int(secs)%60} s | {int(st):,} | {int(tr):,} | {int(tc):,} | {oc} | {'yes' if exh=='true' else 'no'} | {v} / {kn} |")
out+=["","(The thorough run of C09 in round 2 exited 1: the genuine page-id defect repaired by 2e691b1; the thorough run of C19 in round 2 died on `checkptr`, see §12. Both were re-run in round 4. Round 5 ran with the final code; its checks shared the 16 cores in groups of three or four, so budget-limited runs covered less than a run alone would. C18 was not re-run after round 2: its additions are part of the quick tier. The round-5 run of C12 exited 1: the partial visibility of a multi-row INSERT through an index range scan, classified and listed as a known finding (§12) - a re-run would print KNOWN-FINDING and exit 0, as the quick tier now does.)","","<!-- thorough:end -->"]
block="\n".join(out)
s=open('/verif/DESIGN.md').read()
s=re.sub(r'<!-- thorough:begin -->.*?<!-- thorough:end -->', lambda m: block, s, flags=re.S)
open('/verif/DESIGN.md','w').write(s)
print(len(rows),"rows")
