#!/bin/bash
# second thorough loop: waits for the first one, rebuilds the binaries from the current trees
while ! grep -q ALLDONE /dev/shm/thorough/summary.txt; do sleep 30; done
. /verif/bin/env.sh
build_verifcheck race || exit 2
mkdir -p /verif/.build-thorough /dev/shm/thorough2
cp /verif/.build/verifcheck /verif/.build/verifcheck-race /verif/.build-thorough/
for id in C13 C12 C19 C09 C05 C14 C17 C11 C06 C15 C16 C10 C03 C04 C07 C08 C20 C01 C02 C18; do
  BIN=/verif/.build-thorough/verifcheck; [ $id = C19 ] && BIN=/verif/.build-thorough/verifcheck-race
  start=$(date +%s)
  nice -n 15 $BIN -prop $id -tier thorough > /dev/shm/thorough2/$id.out 2>&1
  rc=$?
  echo "$id exit=$rc secs=$(( $(date +%s) - start )) $(tail -1 /dev/shm/thorough2/$id.out | cut -c1-220)" >> /dev/shm/thorough2/summary.txt
  cp /verif/evidence/$id.json /dev/shm/thorough2/$id.evidence.json 2>/dev/null
done
echo ALLDONE >> /dev/shm/thorough2/summary.txt
