import sys
id, pkgs, hint = sys.argv[1], sys.argv[2], sys.argv[3]
studied = open(f'/tmp/mut-{id}-out/already_studied.txt').read()
print(f"""You are given a scratch git worktree of the Go project ryogrid/SamehadaDB (an educational relational DBMS; the Go module is in ./lib) at /tmp/mut-{id}. The text of a semantic property of this system is in /tmp/mut-{id}-out/property.txt — read it first.

Your task: make ONE realistic code change in the worktree (a plausible bug a maintainer could introduce while refactoring or optimising — not an obvious sabotage, at most ~15 changed lines) that BREAKS this property, while
 (a) the project still compiles: `cd /tmp/mut-{id}/lib && go build ./...`
 (b) the existing tests of the packages you touched (and their test packages) still pass: `go test -vet=off -count=1 -timeout 10m <packages>` — e.g. {pkgs} (./samehada/... takes ~2 minutes; lib/execution/executors/executor_test is slow and partly flaky — run only a few relevant tests of it with -run; ./container/btree/... takes 8+ minutes — only if you touch it)
Environment for every shell command: `export GOFLAGS=-mod=mod GOPROXY=off GOSUMDB=off GOTOOLCHAIN=local` (there is no network).

IMPORTANT — these changes have ALREADY been studied; choose a different code site and a different mechanism:
{studied}
{hint}

The change must need something specific in order to manifest — a particular history, statement shape, data layout, interleaving, crash position or boundary value named by the property's quantifier — or two cooperating code sites that each look fine alone — not something the simplest use would expose at once. The code sites listed under "anchors" in the property file tell you where the property lives; look for a path that the obvious scenarios do not take.

Also write a demonstration: a Go test (or small program) that FAILS with your change and PASSES without it. Verify both directions yourself. (Explicit transactions: see `SamehadaDB.ExecuteSQLRetValues` in lib/samehada/samehada.go for the parser/planner/executor path, `shi.GetTransactionManager().Begin(nil)` / Commit / Abort. A crash can be simulated as lib/recovery/recovery_test and lib/samehada/samehada_test do — `ShutdownForTescase` and reopening with NewSamehadaDB. With `-tags verif` the hook `samehada.VerifDiskWrapper` lets a test wrap the disk manager.)

Deliverables, all in /tmp/mut-{id}-out/ :
 - patch.diff : output of `git diff` in the worktree containing ONLY your source change (not the demo test)
 - the demonstration file(s), plus where to place them and the exact command to run them
 - notes.md : what the change is, why it breaks the property, what it needs in order to manifest, and the exact commands you ran with their results (build, existing tests with the change, demo with and without the change)

Rules: work only inside /tmp/mut-{id} and /tmp/mut-{id}-out. Do not touch or read /repo or /verif. Do not commit anything; do not use `git stash` (other worktrees share the repository) — use `git diff > file; git checkout -- .; ...; git apply file`. Keep every test run bounded with a timeout. When done, reply with a 5-line summary.""")
