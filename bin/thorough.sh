#!/bin/bash
mkdir -p /dev/shm/thorough
for id in C03 C05 C04 C06 C07 C11 C17 C12 C19 C08 C09 C10 C14 C20 C01 C02 C18; do
  BIN=/verif/.build-thorough/verifcheck; [ $id = C19 ] && BIN=/verif/.build-thorough/verifcheck-race
  start=$(date +%s)
  nice -n 15 $BIN -prop $id -tier thorough > /dev/shm/thorough/$id.out 2>&1
  rc=$?
  echo "$id exit=$rc secs=$(( $(date +%s) - start )) $(tail -1 /dev/shm/thorough/$id.out | cut -c1-220)" >> /dev/shm/thorough/summary.txt
  cp /verif/evidence/$id.json /dev/shm/thorough/$id.evidence.json 2>/dev/null
done
echo ALLDONE >> /dev/shm/thorough/summary.txt
