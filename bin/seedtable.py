#!/usr/bin/env python3
# prints the markdown table of DESIGN.md section 14 from /verif/seeded/*/meta.json
import json, glob, os
rows = []
for f in sorted(glob.glob('/verif/seeded/*/meta.json')):
    m = json.load(open(f))
    sid = os.path.basename(os.path.dirname(f))
    first = 'missed, check strengthened' if m.get('initially_missed') else 'caught'
    caught = '; '.join(f"{k}: {v}" for k, v in m['caught_by'].items())
    rows.append(f"| {sid} | {m['change']} | {m['needs_to_manifest']} | {first} | {caught} |")
print("| id | change | needs | first run | caught by (now) |\n|---|---|---|---|---|")
print('\n'.join(rows))
