// Package vsync replaces package sync in every non-test file of SamehadaDB's lib/ through the build
// overlay (the import line is rewritten to `sync ".../lib/verifshim/vsync"`). Mutex and RWMutex
// report to the scheduler in vsched; everything else is the real thing.
package vsync

import (
	"sync"

	"github.com/ryogrid/SamehadaDB/lib/verifshim/vsched"
)

type (
	Map       = sync.Map
	Pool      = sync.Pool
	WaitGroup = sync.WaitGroup
	Once      = sync.Once
	Locker    = sync.Locker
	Cond      = sync.Cond
)

type Mutex struct {
	mu sync.Mutex
	st vsched.LockState
}

//go:norace
func (m *Mutex) Lock() {
	if vsched.Mode != vsched.ModePass {
		vsched.Acquire(&m.st, vsched.KLock)
	}
	m.mu.Lock()
}

//go:norace
func (m *Mutex) TryLock() bool {
	if vsched.Mode != vsched.ModePass {
		if !vsched.TryAcquire(&m.st, vsched.KLock) {
			return false
		}
		m.mu.Lock()
		return true
	}
	return m.mu.TryLock()
}

//go:norace
func (m *Mutex) Unlock() {
	m.mu.Unlock()
	if vsched.Mode != vsched.ModePass {
		vsched.Release(&m.st, vsched.KLock)
	}
}

type RWMutex struct {
	mu sync.RWMutex
	st vsched.LockState
}

//go:norace
func (m *RWMutex) Lock() {
	if vsched.Mode != vsched.ModePass {
		vsched.Acquire(&m.st, vsched.KLock)
	}
	m.mu.Lock()
}

//go:norace
func (m *RWMutex) Unlock() {
	m.mu.Unlock()
	if vsched.Mode != vsched.ModePass {
		vsched.Release(&m.st, vsched.KLock)
	}
}

//go:norace
func (m *RWMutex) RLock() {
	if vsched.Mode != vsched.ModePass {
		vsched.Acquire(&m.st, vsched.KRLock)
	}
	m.mu.RLock()
}

//go:norace
func (m *RWMutex) RUnlock() {
	m.mu.RUnlock()
	if vsched.Mode != vsched.ModePass {
		vsched.Release(&m.st, vsched.KRLock)
	}
}

//go:norace
func (m *RWMutex) TryLock() bool {
	if vsched.Mode != vsched.ModePass {
		if !vsched.TryAcquire(&m.st, vsched.KLock) {
			return false
		}
		m.mu.Lock()
		return true
	}
	return m.mu.TryLock()
}

//go:norace
func (m *RWMutex) TryRLock() bool {
	if vsched.Mode != vsched.ModePass {
		if !vsched.TryAcquire(&m.st, vsched.KRLock) {
			return false
		}
		m.mu.RLock()
		return true
	}
	return m.mu.TryRLock()
}

//go:norace
func (m *RWMutex) RLocker() sync.Locker { return (*rlocker)(m) }

type rlocker RWMutex

//go:norace
func (r *rlocker) Lock()   { (*RWMutex)(r).RLock() }
//go:norace
func (r *rlocker) Unlock() { (*RWMutex)(r).RUnlock() }
