// Package vrand replaces math/rand in lib/container/skip_list/skip_list.go through the build overlay:
// the only randomness on the data path (the level of a new skip-list node) becomes an answer the
// harness owns.
package vrand

// Float32Fn answers rand.Float32(). The default is a fixed deterministic stream.
var Float32Fn func() float32 = defaultStream

var state uint64 = 0x9E3779B97F4A7C15

// Reset restarts the default stream (called by the harness at the start of every execution).
//go:norace
func Reset() { state = 0x9E3779B97F4A7C15 }

//go:norace
func defaultStream() float32 {
	// xorshift64*
	state ^= state >> 12
	state ^= state << 25
	state ^= state >> 27
	return float32((state*0x2545F4914F6CDD1D)>>40) / float32(1<<24)
}

//go:norace
func Float32() float32 { return Float32Fn() }
