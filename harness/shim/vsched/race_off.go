//go:build !race

package vsched

func rd() {}
func re() {}

const RaceBuild = false
