//go:build !race

package vsched

func rd() {}
func re() {}

const RaceBuild = false

func RaceErrors() int { return 0 }
