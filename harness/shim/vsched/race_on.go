//go:build race

package vsched

import "runtime"

// Hand-offs between controlled threads and all scheduler book-keeping are hidden from the race
// detector, so that they add no happens-before edges: the detector then sees only the program's own
// synchronisation (the real sync.Mutex operations the shims still perform after being granted).
func rd() { runtime.RaceDisable() }
func re() { runtime.RaceEnable() }

const RaceBuild = true

// RaceErrors is the number of data races the detector has reported so far.
func RaceErrors() int { return runtime.RaceErrors() }
