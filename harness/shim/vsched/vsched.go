// Package vsched is the cooperative scheduler that owns every mutex, RW-latch, channel operation and
// goroutine spawn of the SamehadaDB library when it is built through the verification overlay.
//
// It is injected as a *virtual* package below lib/verifshim/ by `go build -overlay`; the repository is
// never edited. Three modes:
//
//	ModePass   – shims forward to the real sync primitives (free-running runs, e.g. the -race pass)
//	ModeOwned  – every lock/channel operation is book-kept. Outside a controlled execution the process
//	             is single-threaded by construction, so an acquire that would block is a *deterministic*
//	             self-deadlock (a leaked latch) and panics with a LATCH-LEAK verdict instead of hanging.
//	             Inside a controlled execution (Exec.Run) exactly one registered thread runs at a time
//	             and every acquire / channel op / spawn is a scheduling point.
package vsched

import (
	"fmt"
	"runtime"
	"strings"
	"sync/atomic"
)

const (
	ModePass  = 0
	ModeOwned = 1
)

// Mode is set once per process by the harness before any library object is created.
var Mode int32 = ModeOwned

type Kind int

const (
	KStart Kind = iota
	KLock       // exclusive (Mutex.Lock / RWMutex.Lock)
	KRLock      // shared (RWMutex.RLock)
	KSend
	KRecv
	KYield
	KWait // WaitGroup.Wait style: enabled when counter is zero
)

//go:norace
func (k Kind) String() string {
	return [...]string{"start", "lock", "rlock", "send", "recv", "yield", "wait"}[k]
}

// LockState is the scheduler's view of one mutex / RW-latch. Zero value = free.
type LockState struct {
	Writer  bool
	Readers int32
	ID      uint32 // assigned lazily, per process; only for traces
	rd      [8]int32 // ids+1 of the controlled threads holding it in read mode (recursion detection; 0 = free)
}

// RecursiveReads counts read-lock acquisitions by a thread that already holds the same RW lock in read
// mode. sync.RWMutex prefers writers: such a re-acquisition deadlocks if a writer arrives in between. The
// scheduler models RW locks WITHOUT writer preference, so it would not see that deadlock; the drivers
// report this counter (0 on every explored schedule = the modelling difference does not matter there).
var RecursiveReads int
var RecursiveReadSites = map[string]int{}

var nextLockID uint32

//go:norace
func (l *LockState) id() uint32 {
	if l.ID == 0 {
		l.ID = atomic.AddUint32(&nextLockID, 1)
	}
	return l.ID
}

type chanState struct {
	cap   int
	queue []any
	id    uint32
}

type chanEnt struct {
	ch any
	cs *chanState
}

var chans []chanEnt // keyed by channel value (identity); a slice: map accesses are race-instrumented inside the runtime

//go:norace
func chanOf(ch any, capacity int) *chanState {
	for i := range chans {
		if chans[i].ch == ch {
			return chans[i].cs
		}
	}
	if CapOverride != nil {
		capacity = CapOverride(capacity)
	}
	cs := &chanState{cap: capacity, id: atomic.AddUint32(&nextLockID, 1)}
	chans = append(chans, chanEnt{ch, cs})
	return cs
}

// CapOverride, if set, maps the real capacity of a buffered channel to the capacity the scheduler models
// (bounded abstraction of a size parameter: a deadlock that needs capacity+2 senders is searched with a
// small capacity and then replayed with the real one).
var CapOverride func(realCap int) int

// ResetChannels forgets all channel queues (called between executions by the harness).
//go:norace
func ResetChannels() { chans = nil }

type Thread struct {
	ID     int
	Name   string
	Daemon bool
	wake   chan struct{}
	kind   Kind
	ls     *LockState
	cs     *chanState
	done   bool
	fn     func()
	Panic  any
	Stack  string
	consec int
	exited chan struct{}
	parked bool
}

// Point is one recorded scheduling decision.
type Point struct {
	Enabled []int  // thread ids in canonical order (running thread first if enabled, then ascending)
	Chosen  int    // index into Enabled
	RunEn   bool   // the thread that was running is still enabled (switching away = preemption)
	Thread  int    // thread that arrived at the point (-1 = initial / thread exit)
	Kind    Kind   // its pending op
	Obj     uint32 // lock/channel id of its pending op
}

type Exec struct {
	Threads  []*Thread
	cur      *Thread
	prefix   []int
	Trace    []Point
	finished chan struct{}
	Deadlock bool
	Horizon  bool
	Diverged string
	MaxPts   int
	Fair     int
	ended    bool
	// Hook is called (inside the running thread) at every point before choosing; may be nil.
	Blocked []string
	// Chooser, if set, picks the next thread once the prefix is used up (directed replay): it receives the
	// enabled thread ids in canonical order and returns an index into them.
	Chooser func(e *Exec, enabled []int, from *Thread) int
}

// PendingKind reports the operation thread t is about to perform (for Chooser functions).
//go:norace
func (t *Thread) PendingKind() Kind { return t.kind }

var active *Exec
var pendingSpawns []*Thread

// Active reports whether a controlled execution is running.
//go:norace
func Active() bool { return active != nil }

//go:norace
func NewExec(prefix []int) *Exec {
	return &Exec{prefix: prefix, finished: make(chan struct{}), MaxPts: 200000, Fair: 2000}
}

// Spawn registers a controlled thread before Run.
//go:norace
func (e *Exec) Spawn(name string, fn func()) *Thread {
	t := &Thread{ID: len(e.Threads), Name: name, wake: make(chan struct{}), exited: make(chan struct{}), kind: KStart, fn: fn}
	e.Threads = append(e.Threads, t)
	return t
}

// Run executes all spawned threads under the schedule prefix (then choice 0) and returns when every
// non-daemon thread finished, a deadlock was found or the horizon was hit. Must be called from the
// driver goroutine, which is not a controlled thread.
//go:norace
func (e *Exec) Run() {
	// adopt goroutines the library started while no execution was active (RequestManager loop)
	for _, t := range pendingSpawns {
		t.ID = len(e.Threads)
		t.Daemon = true
		e.Threads = append(e.Threads, t)
	}
	pendingSpawns = nil
	active = e
	for _, t := range e.Threads {
		e.launch(t)
	}
	e.dispatch(nil)
	rd()
	<-e.finished
	re()
	// unwind every thread that is still parked, one at a time, so that nothing of this execution stays
	// reachable (a leaked goroutine would pin a whole database instance in memory)
	for _, t := range e.Threads {
		// (the exit of a thread is a real join edge for the race detector: what the threads wrote
		// happens-before what the driver reads afterwards)
		select {
		case <-t.exited:
			continue
		default:
		}
		rd()
		select {
		case t.wake <- struct{}{}:
		case <-t.exited:
		}
		re()
		<-t.exited
	}
	active = nil
}

//go:norace
func (e *Exec) launch(t *Thread) {
	// the go statement stays visible to the race detector: everything the spawner did before
	// happens-before the new thread, as in the uninstrumented program
	go func() {
		rd()
		<-t.wake
		re()
		if e.ended {
			t.done = true
			close(t.exited)
			return
		}
		defer func() {
			r := recover()
			if r != nil && !e.ended {
				if _, ok := r.(abortExec); !ok {
					t.Panic = r
					buf := make([]byte, 16384)
					t.Stack = string(buf[:runtime.Stack(buf, false)])
				}
			}
			t.done = true
			if !e.ended {
				e.dispatch(nil)
			}
			close(t.exited)
		}()
		t.fn()
	}()
}

type abortExec struct{}

//go:norace
func (e *Exec) enabled(t *Thread) bool {
	if t.done {
		return false
	}
	switch t.kind {
	case KStart, KYield:
		return true
	case KLock:
		return !t.ls.Writer && t.ls.Readers == 0
	case KRLock:
		return !t.ls.Writer
	case KSend:
		if t.cs.cap > 0 {
			return len(t.cs.queue) < t.cs.cap
		}
		if len(t.cs.queue) > 0 {
			return false
		}
		for _, o := range e.Threads {
			if o != t && !o.done && o.kind == KRecv && o.cs == t.cs {
				return true
			}
		}
		return false
	case KRecv:
		return len(t.cs.queue) > 0
	}
	return false
}

// dispatch chooses the next thread. from == nil: the calling thread has exited (or this is the initial
// dispatch); otherwise from is the running thread that arrived at a point with its pending op set.
// Returns only when `from` has been chosen to run (its op is then enabled). Caller holds rd().
//go:norace
func (e *Exec) dispatch(from *Thread) {
	if e.ended {
		if from != nil {
			panic(abortExec{})
		}
		return
	}
	var en []int
	runEn := false
	if from != nil && e.enabled(from) {
		// fairness: a thread that monopolises the processor in a retry loop is deprioritised
		if from.consec < e.Fair {
			en = append(en, from.ID)
			runEn = true
		}
	}
	for _, t := range e.Threads {
		if t != from && e.enabled(t) {
			en = append(en, t.ID)
		}
	}
	if from != nil && !runEn && e.enabled(from) {
		if len(en) == 0 {
			en = append(en, from.ID)
			runEn = true
		} else {
			en = append(en, from.ID) // still selectable, but last
		}
	}
	allDone := true
	for _, t := range e.Threads {
		if !t.done && !t.Daemon {
			allDone = false
		}
	}
	if allDone {
		e.finish()
		if from != nil {
			e.park(from)
		}
		return
	}
	if len(en) == 0 {
		e.Deadlock = true
		for _, t := range e.Threads {
			if !t.done {
				obj := uint32(0)
				if t.ls != nil {
					obj = t.ls.id()
				} else if t.cs != nil {
					obj = t.cs.id
				}
				e.Blocked = append(e.Blocked, fmt.Sprintf("%s:%s#%d", t.Name, t.kind, obj))
			}
		}
		e.finish()
		if from != nil {
			e.park(from)
		}
		return
	}
	if len(e.Trace) >= e.MaxPts {
		e.Horizon = true
		e.finish()
		if from != nil {
			e.park(from)
		}
		return
	}
	idx := 0
	if n := len(e.Trace); n < len(e.prefix) {
		idx = e.prefix[n]
		if idx < 0 || idx >= len(en) {
			e.Diverged = fmt.Sprintf("point %d: choice %d out of range (enabled %v)", n, idx, en)
			e.finish()
			if from != nil {
				e.park(from)
			}
			return
		}
	} else if e.Chooser != nil {
		idx = e.Chooser(e, en, from)
		if idx < 0 || idx >= len(en) {
			idx = 0
		}
	}
	p := Point{Enabled: en, Chosen: idx, RunEn: runEn, Thread: -1}
	if from != nil {
		p.Thread, p.Kind = from.ID, from.kind
		if from.ls != nil {
			p.Obj = from.ls.id()
		} else if from.cs != nil {
			p.Obj = from.cs.id
		}
	}
	e.Trace = append(e.Trace, p)
	next := e.Threads[en[idx]]
	if next == from {
		from.consec++
		return
	}
	if from != nil {
		from.consec = 0
	}
	e.cur = next
	rd()
	next.wake <- struct{}{}
	if from != nil {
		<-from.wake
	}
	re()
	if from != nil && e.ended {
		panic(abortExec{})
	}
}

// park blocks a thread of an execution that is over until Run's clean-up unwinds it.
//go:norace
func (e *Exec) park(t *Thread) {
	rd()
	<-t.wake
	re()
	panic(abortExec{})
}

//go:norace
func (e *Exec) finish() {
	if !e.ended {
		e.ended = true
		e.cur = nil
		rd()
		close(e.finished)
		re()
	}
}

// --- operations called by the shims --------------------------------------------------------------

//go:norace
func curThread() *Thread {
	if active == nil {
		return nil
	}
	return active.cur
}

// LatchLeak is the panic value raised when a single-threaded phase would block forever.
type LatchLeak struct{ What string }

//go:norace
func (l LatchLeak) Error() string { return "LATCH-LEAK: " + l.What }

// Acquire blocks (cooperatively) until the lock can be taken in the given mode and takes it.
//go:norace
func Acquire(l *LockState, k Kind) {
	t := curThread()
	if t == nil {
		// single-threaded phase
		if l.Writer || (k == KLock && l.Readers > 0) {
			panic(LatchLeak{fmt.Sprintf("%s on lock #%d held (writer=%v readers=%d) in single-threaded phase", k, l.id(), l.Writer, l.Readers)})
		}
	} else {
		t.kind, t.ls, t.cs = k, l, nil
		active.dispatch(t)
		t.ls = nil
		t.kind = KYield
	}
	if k == KLock {
		l.Writer = true
	} else {
		l.Readers++
		if t != nil {
			// (plain array and loops: slice helpers of the runtime are race-instrumented)
			free := -1
			for i := 0; i < len(l.rd); i++ {
				if l.rd[i] == int32(t.ID)+1 {
					RecursiveReads++
					if len(RecursiveReadSites) < 20 {
						RecursiveReadSites[callerSite()]++
					}
				}
				if l.rd[i] == 0 && free < 0 {
					free = i
				}
			}
			if free >= 0 {
				l.rd[free] = int32(t.ID) + 1
			}
		}
	}
}

// callerSite: first frame outside the shims (for RecursiveReadSites).
//go:norace
func callerSite() string {
	pc := make([]uintptr, 12)
	n := runtime.Callers(3, pc)
	fr := runtime.CallersFrames(pc[:n])
	for {
		f, more := fr.Next()
		if !strings.Contains(f.Function, "verifshim") && f.Function != "" {
			return fmt.Sprintf("%s:%d", f.Function, f.Line)
		}
		if !more {
			return "?"
		}
	}
}

// TryAcquire never blocks and is not a scheduling point.
//go:norace
func TryAcquire(l *LockState, k Kind) bool {
	if l.Writer || (k == KLock && l.Readers > 0) {
		return false
	}
	if k == KLock {
		l.Writer = true
	} else {
		l.Readers++
		if t := curThread(); t != nil {
			for i := 0; i < len(l.rd); i++ {
				if l.rd[i] == 0 {
					l.rd[i] = int32(t.ID) + 1
					break
				}
			}
		}
	}
	return true
}

//go:norace
func Release(l *LockState, k Kind) {
	if k == KLock {
		if !l.Writer {
			panic("vsched: unlock of unlocked mutex")
		}
		l.Writer = false
	} else {
		if l.Readers <= 0 {
			panic("vsched: RUnlock of unlocked RWMutex")
		}
		l.Readers--
		if t := curThread(); t != nil {
			for i := 0; i < len(l.rd); i++ {
				if l.rd[i] == int32(t.ID)+1 {
					l.rd[i] = 0
					break
				}
			}
		} else {
			for i := 0; i < len(l.rd); i++ {
				l.rd[i] = 0
			}
		}
	}
}

// Yield is an explicit scheduling point (harness step boundaries, spin loops).
//go:norace
func Yield() {
	if t := curThread(); t != nil {
		t.kind, t.ls, t.cs = KYield, nil, nil
		active.dispatch(t)
	}
}

// Go replaces the `go` statement in rewritten library files.
//go:norace
func Go(fn func()) {
	if Mode == ModePass {
		go fn()
		return
	}
	t := &Thread{Name: "lib-goroutine", wake: make(chan struct{}), exited: make(chan struct{}), kind: KStart, fn: fn}
	if active == nil {
		pendingSpawns = append(pendingSpawns, t)
		return
	}
	e := active
	t.ID = len(e.Threads)
	t.Name = fmt.Sprintf("lib-goroutine-%d", t.ID)
	t.Daemon = false
	e.Threads = append(e.Threads, t)
	e.launch(t)
	if c := e.cur; c != nil {
		c.kind, c.ls, c.cs = KYield, nil, nil
		e.dispatch(c)
	}
}

// DropPendingSpawns forgets library goroutines that were requested while no execution was active
// (engines that never run a controlled execution call this after creating a database).
//go:norace
func DropPendingSpawns() { pendingSpawns = nil }

// Send replaces `ch <- v`.
//go:norace
func Send[T any](ch chan T, v T) {
	if Mode == ModePass {
		ch <- v
		return
	}
	cs := chanOf(ch, cap(ch))
	t := curThread()
	if t == nil {
		if cs.cap == 0 || len(cs.queue) >= cs.cap {
			panic(LatchLeak{"channel send would block in single-threaded phase"})
		}
		cs.queue = append(cs.queue, v)
		return
	}
	t.kind, t.ls, t.cs = KSend, nil, cs
	active.dispatch(t)
	t.cs = nil
	t.kind = KYield
	cs.queue = append(cs.queue, v)
}

// Recv replaces `<-ch`.
//go:norace
func Recv[T any](ch chan T) T {
	if Mode == ModePass {
		return <-ch
	}
	cs := chanOf(ch, cap(ch))
	t := curThread()
	if t == nil {
		if len(cs.queue) == 0 {
			panic(LatchLeak{"channel receive would block in single-threaded phase"})
		}
	} else {
		t.kind, t.ls, t.cs = KRecv, nil, cs
		active.dispatch(t)
		t.cs = nil
		t.kind = KYield
	}
	v := cs.queue[0]
	cs.queue = cs.queue[1:]
	return v.(T)
}
