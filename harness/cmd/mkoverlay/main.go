// mkoverlay generates the `go build -overlay` description that puts SamehadaDB's lib/ under the
// verification shims WITHOUT editing the repository. It is re-run by every check, so what is built is
// always derived from the current working tree of the repository.
//
//	mkoverlay -repo /repo -shim /verif/harness/shim -out /verif/.build/ov
//
// writes <out>/overlay.json plus rewritten copies of the files it had to change:
//   - every non-test file of lib/ importing "sync"          -> import sync ".../lib/verifshim/vsync"
//   - lib/container/skip_list/skip_list.go "math/rand"      -> ".../lib/verifshim/vrand"
//   - lib/samehada/{request_manager,samehada}.go            -> go / chan-send / chan-recv rewritten to
//     vsched.Go / vsched.Send / vsched.Recv (go/ast); unknown channel constructs are a hard error
//   - virtual packages lib/verifshim/{vsched,vsync,vrand}   -> the shim sources
package main

import (
	"bytes"
	"encoding/json"
	"flag"
	"fmt"
	"go/ast"
	"go/format"
	"go/parser"
	"go/token"
	"os"
	"path/filepath"
	"strconv"
	"strings"
)

const shimBase = "github.com/ryogrid/SamehadaDB/lib/verifshim/"

func die(f string, a ...any) {
	fmt.Fprintf(os.Stderr, "mkoverlay: "+f+"\n", a...)
	os.Exit(2)
}

// warnings: goroutine/channel constructs the scheduler does not own. They are left as they are (real Go
// semantics): every driver that does not run under the scheduler is unaffected, the scheduler-based
// drivers report the list in their evidence (an execution that reaches such a construct is not fully
// controlled). A refactoring of the repository must not break the build of all checks.
var warnings []string

func warn(f string, a ...any) {
	w := fmt.Sprintf(f, a...)
	warnings = append(warnings, w)
	fmt.Fprintln(os.Stderr, "mkoverlay: warning: "+w)
}

func main() {
	repo := flag.String("repo", "/repo", "repository root")
	shim := flag.String("shim", "/verif/harness/shim", "shim source dir")
	out := flag.String("out", "/verif/.build/ov", "output dir")
	flag.Parse()
	lib := filepath.Join(*repo, "lib")
	// the harness module resolves the library at modLib (go.mod: replace ... => /repo/lib). When another tree is
	// checked (-repo: a scratch copy carrying a seeded change) EVERY source file of that tree is overlaid onto
	// the path the module resolves, so that what is built is the copy
	const modLib = "/repo/lib"
	replace := map[string]string{}
	os.RemoveAll(*out)
	if err := os.MkdirAll(*out, 0o755); err != nil {
		die("%v", err)
	}
	nsync, nchan := 0, 0
	err := filepath.Walk(lib, func(p string, fi os.FileInfo, err error) error {
		if err != nil {
			return err
		}
		if fi.IsDir() || !strings.HasSuffix(p, ".go") || strings.HasSuffix(p, "_test.go") {
			return nil
		}
		rel, _ := filepath.Rel(lib, p)
		if strings.HasPrefix(rel, "verifshim") || strings.HasPrefix(filepath.Base(rel), "verif_") {
			if lib != modLib && !strings.HasPrefix(rel, "verifshim") {
				replace[filepath.Join(modLib, rel)] = p
			}
			return nil // shim sources and the hook files themselves stay as they are
		}
		src, err := os.ReadFile(p)
		if err != nil {
			return err
		}
		fset := token.NewFileSet()
		f, err := parser.ParseFile(fset, p, src, parser.ParseComments)
		if err != nil {
			return err
		}
		changed := false
		for _, im := range f.Imports {
			path, _ := strconv.Unquote(im.Path.Value)
			switch {
			case path == "sync":
				im.Path.Value = strconv.Quote(shimBase + "vsync")
				if im.Name == nil {
					im.Name = ast.NewIdent("sync")
				}
				changed = true
				nsync++
			case path == "math/rand" && rel == filepath.Join("container", "skip_list", "skip_list.go"):
				im.Path.Value = strconv.Quote(shimBase + "vrand")
				im.Name = ast.NewIdent("rand")
				changed = true
			}
		}
		if rel == filepath.Join("samehada", "request_manager.go") || rel == filepath.Join("samehada", "samehada.go") {
			n := rewriteChan(fset, f, p)
			if n > 0 {
				addImport(f, shimBase+"vsched")
				changed = true
				nchan += n
			}
		} else {
			checkNoChan(fset, f, rel)
		}
		if !changed {
			if lib != modLib {
				replace[filepath.Join(modLib, rel)] = p
			}
			return nil
		}
		var buf bytes.Buffer
		if err := format.Node(&buf, fset, f); err != nil {
			return err
		}
		dst := filepath.Join(*out, rel)
		os.MkdirAll(filepath.Dir(dst), 0o755)
		if err := os.WriteFile(dst, buf.Bytes(), 0o644); err != nil {
			return err
		}
		replace[filepath.Join(modLib, rel)] = dst
		return nil
	})
	if err != nil {
		die("%v", err)
	}
	if nsync == 0 {
		die("no file importing \"sync\" found below %s - layout changed?", lib)
	}
	for _, pkg := range []string{"vsched", "vsync", "vrand"} {
		files, _ := filepath.Glob(filepath.Join(*shim, pkg, "*.go"))
		if len(files) == 0 {
			die("no shim sources for %s", pkg)
		}
		for _, s := range files {
			replace[filepath.Join(modLib, "verifshim", pkg, filepath.Base(s))] = s
		}
	}
	os.WriteFile(filepath.Join(*out, "warnings.txt"), []byte(strings.Join(warnings, "\n")), 0o644)
	js, _ := json.MarshalIndent(map[string]any{"Replace": replace}, "", " ")
	if err := os.WriteFile(filepath.Join(*out, "overlay.json"), js, 0o644); err != nil {
		die("%v", err)
	}
	fmt.Printf("mkoverlay: %d sync imports, %d go/chan sites rewritten, %d overlay entries\n", nsync, nchan, len(replace))
}

func addImport(f *ast.File, path string) {
	spec := &ast.ImportSpec{Path: &ast.BasicLit{Kind: token.STRING, Value: strconv.Quote(path)}}
	for _, d := range f.Decls {
		if gd, ok := d.(*ast.GenDecl); ok && gd.Tok == token.IMPORT {
			gd.Specs = append(gd.Specs, spec)
			if !gd.Lparen.IsValid() {
				gd.Lparen = gd.Pos()
				gd.Rparen = gd.End()
			}
			f.Imports = append(f.Imports, spec)
			return
		}
	}
	die("no import decl")
}

func sel(pkg, name string) ast.Expr {
	return &ast.SelectorExpr{X: ast.NewIdent(pkg), Sel: ast.NewIdent(name)}
}

// checkNoChan makes sure no *other* data-path file grew channel or goroutine constructs the scheduler
// would not own (debug helpers in common/assert.go and the two background threads switched off by
// hook H2 are the known exceptions).
func checkNoChan(fset *token.FileSet, f *ast.File, rel string) {
	switch rel {
	case filepath.Join("common", "assert.go"), filepath.Join("concurrency", "checkpoint_manager.go"),
		filepath.Join("concurrency", "statistics_updater.go"):
		return
	}
	if strings.HasPrefix(rel, "testing"+string(filepath.Separator)) {
		return
	}
	ast.Inspect(f, func(n ast.Node) bool {
		switch x := n.(type) {
		case *ast.GoStmt, *ast.SendStmt, *ast.SelectStmt:
			die("%s: %s: goroutine/channel construct outside the files the scheduler owns", rel, fset.Position(x.Pos()))
		case *ast.UnaryExpr:
			if x.Op == token.ARROW {
				die("%s: %s: channel receive outside the files the scheduler owns", rel, fset.Position(x.Pos()))
			}
		}
		return true
	})
}

// rewriteChan rewrites go statements, channel sends and receives in place. Returns the number of sites.
func rewriteChan(fset *token.FileSet, f *ast.File, path string) int {
	n := 0
	var rewriteExpr func(e ast.Expr) ast.Expr
	rewriteExpr = func(e ast.Expr) ast.Expr {
		if u, ok := e.(*ast.UnaryExpr); ok && u.Op == token.ARROW {
			n++
			return &ast.CallExpr{Fun: sel("vsched", "Recv"), Args: []ast.Expr{u.X}}
		}
		return e
	}
	// generic expression walk replacing receive expressions wherever they are stored
	var walk func(node ast.Node)
	fixList := func(list []ast.Expr) {
		for i := range list {
			list[i] = rewriteExpr(list[i])
			walk(list[i])
		}
	}
	var fixStmts func(list []ast.Stmt)
	fixStmts = func(list []ast.Stmt) {
		for i, s := range list {
			switch x := s.(type) {
			case *ast.GoStmt:
				n++
				call := x.Call
				var pre []ast.Stmt
				fn := ast.NewIdent("_vf")
				pre = append(pre, &ast.AssignStmt{Lhs: []ast.Expr{fn}, Tok: token.DEFINE, Rhs: []ast.Expr{call.Fun}})
				var args []ast.Expr
				for j, a := range call.Args {
					id := ast.NewIdent(fmt.Sprintf("_va%d", j))
					pre = append(pre, &ast.AssignStmt{Lhs: []ast.Expr{id}, Tok: token.DEFINE, Rhs: []ast.Expr{a}})
					args = append(args, id)
				}
				body := &ast.BlockStmt{List: []ast.Stmt{&ast.ExprStmt{X: &ast.CallExpr{Fun: fn, Args: args}}}}
				lit := &ast.FuncLit{Type: &ast.FuncType{Params: &ast.FieldList{}}, Body: body}
				pre = append(pre, &ast.ExprStmt{X: &ast.CallExpr{Fun: sel("vsched", "Go"), Args: []ast.Expr{lit}}})
				list[i] = &ast.BlockStmt{List: pre}
			case *ast.SendStmt:
				n++
				list[i] = &ast.ExprStmt{X: &ast.CallExpr{Fun: sel("vsched", "Send"), Args: []ast.Expr{x.Chan, x.Value}}}
			case *ast.SelectStmt:
				warn("%s: select statement is not modelled by the scheduler (left as it is)", fset.Position(x.Pos()))
			case *ast.RangeStmt:
				walk(x)
			default:
				walk(s)
			}
		}
	}
	walk = func(node ast.Node) {
		ast.Inspect(node, func(nd ast.Node) bool {
			switch x := nd.(type) {
			case *ast.BlockStmt:
				fixStmts(x.List)
				return false
			case *ast.CaseClause:
				fixStmts(x.Body)
				return false
			case *ast.AssignStmt:
				fixList(x.Rhs)
				return false
			case *ast.ReturnStmt:
				fixList(x.Results)
				return false
			case *ast.ExprStmt:
				x.X = rewriteExpr(x.X)
				if x.X != nil {
					// descend into call arguments
					if c, ok := x.X.(*ast.CallExpr); ok {
						fixList(c.Args)
					}
				}
				return false
			case *ast.CallExpr:
				if id, ok := x.Fun.(*ast.Ident); ok && (id.Name == "close" || id.Name == "len" || id.Name == "cap") {
					// len/cap of slices are fine; closing a channel is not modelled
					if id.Name == "close" {
						warn("%s: close(ch) is not modelled by the scheduler (left as it is)", fset.Position(x.Pos()))
					}
				}
				fixList(x.Args)
				return true
			case *ast.UnaryExpr:
				if x.Op == token.ARROW {
					warn("%s: channel receive in an expression position the rewriter does not handle (left as it is)", fset.Position(x.Pos()))
				}
			case *ast.ValueSpec:
				fixList(x.Values)
				return false
			case *ast.GoStmt, *ast.SendStmt:
				warn("%s: go/send statement in a position the rewriter does not handle (left as it is)", fset.Position(nd.Pos()))
			}
			return true
		})
	}
	for _, d := range f.Decls {
		if fd, ok := d.(*ast.FuncDecl); ok && fd.Body != nil {
			fixStmts(fd.Body.List)
		}
	}
	return n
}
