package main

import (
	"os"

	"verif/core"
	_ "verif/props"
)

func main() { os.Exit(core.Main(os.Args[1:])) }
