package core

import (
	"fmt"
	"os"
	"strings"
)

// Instance is one fresh real object (or database) together with its reference model.
type Instance interface {
	// Enabled lists the operations the API contract allows in the current state, simplest first.
	Enabled() []string
	// Apply performs op on the implementation and on the model and compares them. A non-nil
	// violation means the two disagree (or an invariant broke); the instance is then dead.
	Apply(op string) *Violation
	// Key is a canonical rendering of the *implementation's* state (plus the model's).
	Key() string
	Close()
}

// Outcomer is optionally implemented by instances to classify what the last operation did.
type Outcomer interface{ LastOutcome() string }

type SeqConfig struct {
	Name       string
	Fresh      func() Instance
	MaxDepth   int
	SplitDepth int // levels explored identically by all workers before the frontier is partitioned
	// Seeds are operation prefixes that are applied (checked, but not counted as depth) before the
	// search starts; one search per seed. nil = one search from the initial state.
	Seeds [][]string
	// OutcomeOf classifies an op application for the distinct-outcomes statistic (optional)
	OutcomeOf func(op string, v *Violation) string
	Params    any // written into replay files
}

type node struct {
	hist    []string
	enabled []string
}

// BFS explores every operation sequence up to MaxDepth from every seed, merging states whose Key was
// seen before (per worker). Successor = replay of the shortest history on a fresh instance + one op.
func BFS(c *Ctx, cfg SeqConfig) {
	seeds := cfg.Seeds
	if seeds == nil {
		seeds = [][]string{nil}
	}
	res := c.Res
	res.Bound[cfg.Name+".max_depth"] = cfg.MaxDepth
	res.Bound[cfg.Name+".seeds"] = len(seeds)
	completed := cfg.MaxDepth
	for si, seed := range seeds {
		seen := map[string]struct{}{}
		root := replay(cfg, seed, res, false)
		if root == nil {
			res.Nondet = append(res.Nondet, fmt.Sprintf("%s: seed %d does not replay cleanly: %v", cfg.Name, si, seed))
			continue
		}
		seen[root.Key()] = struct{}{}
		frontier := []node{{hist: append([]string{}, seed...), enabled: root.Enabled()}}
		root.Close()
		if c.Shard == 0 {
			res.States++
		}
		for depth := 1; depth <= cfg.MaxDepth; depth++ {
			var next []node
			counting := depth > cfg.SplitDepth || c.Shard == 0
			for ni, nd := range frontier {
				if depth == cfg.SplitDepth+1 && !c.Mine(ni) {
					continue
				}
				if c.Expired() {
					if depth-1 < completed {
						completed = depth - 1
					}
					break
				}
				for _, op := range nd.enabled {
					inst := replay(cfg, nd.hist, res, false)
					if inst == nil {
						res.Nondet = append(res.Nondet, fmt.Sprintf("%s: history stopped replaying: %v", cfg.Name, nd.hist))
						continue
					}
					v := inst.Apply(op)
					if counting {
						res.Transitions++
						res.Traces++
						res.Op(opKind(op))
						if oc, ok := inst.(Outcomer); ok && v == nil {
							res.Outcome(cfg.Name + ":" + opKind(op) + ":" + oc.LastOutcome())
						}
					}
					if v != nil && v.Ignore {
						if counting {
							res.Outcome(cfg.Name + ":" + opKind(op) + ":dead-end(not this property)")
						}
						inst.Close()
						continue
					}
					if v != nil {
						hist := append(append([]string{}, nd.hist...), op)
						if v.Replay == nil {
							v.Replay = map[string]any{"driver": cfg.Name, "history": hist, "params": cfg.Params}
						}
						v.Detail = fmt.Sprintf("%s\nhistory: %s", v.Detail, strings.Join(hist, " ; "))
						// the same history must fail the same way every time
						stable := true
						for k := 0; k < 4; k++ {
							in2 := replay(cfg, nd.hist, res, false)
							if in2 == nil {
								stable = false
								break
							}
							v2 := in2.Apply(op)
							in2.Close()
							if v2 == nil || v2.Signature != v.Signature {
								stable = false
								break
							}
						}
						if !stable {
							res.Nondet = append(res.Nondet, fmt.Sprintf("%s: violation not reproducible: %s / %v", cfg.Name, v.Signature, hist))
						} else {
							res.Violate(v)
						}
						if counting {
							res.Outcome("VIOLATION:" + v.Signature)
						}
						inst.Close()
						continue
					}
					k := inst.Key()
					if _, ok := seen[k]; !ok {
						seen[k] = struct{}{}
						if counting {
							res.States++
						}
						hist := append(append([]string{}, nd.hist...), op)
						if depth < cfg.MaxDepth {
							next = append(next, node{hist: hist, enabled: inst.Enabled()})
						}
						if len(res.Samples) < 3 && depth == cfg.MaxDepth {
							res.Sample(map[string]any{"driver": cfg.Name, "history": hist})
						}
					}
					inst.Close()
				}
			}
			frontier = next
			if len(frontier) == 0 {
				if depth < cfg.MaxDepth && c.Res.Exhaustive && (c.Of == 1 || depth <= cfg.SplitDepth) {
					res.Note("%s seed %d: state space closed at depth %d (no new states) - complete, not depth-bounded", cfg.Name, si, depth)
				}
				break
			}
		}
	}
	res.Completed = fmt.Sprintf("%s: depth %d", cfg.Name, completed)
}

func opKind(op string) string {
	if i := strings.IndexAny(op, "( "); i > 0 {
		return op[:i]
	}
	return op
}

// replay builds a fresh instance and applies hist. Returns nil if a step that used to pass now fails.
func replay(cfg SeqConfig, hist []string, res *Result, count bool) Instance {
	inst := cfg.Fresh()
	// a prefix that was checked when it was first explored need not be checked again while it is replayed
	rp, _ := inst.(interface{ SetReplay(bool) })
	if rp != nil {
		rp.SetReplay(true)
		defer rp.SetReplay(false)
	}
	for _, op := range hist {
		if v := inst.Apply(op); v != nil {
			inst.Close()
			return nil
		}
	}
	return inst
}

// ReplayHistory is used by `verifcheck -replay` for sequence drivers.
func ReplayHistory(fresh func() Instance, hist []string) (string, bool) {
	inst := fresh()
	defer inst.Close()
	var sb strings.Builder
	for i, op := range hist {
		v := inst.Apply(op)
		fmt.Fprintf(&sb, "step %d: %s\n", i, op)
		if os.Getenv("VERIF_DEBUG") != "" && v == nil {
			fmt.Fprintf(&sb, "      enabled now: %v\n", inst.Enabled())
			if oc, ok := inst.(Outcomer); ok {
				fmt.Fprintf(&sb, "      outcome: %s\n", oc.LastOutcome())
			}
		}
		if v != nil {
			fmt.Fprintf(&sb, "  -> %s\n     %s\n", v.Signature, v.Detail)
			return sb.String(), true
		}
	}
	return sb.String(), false
}
