package core

import (
	"fmt"
	"reflect"
	"sort"
	"strings"
)

// Dump renders (also unexported) state of a value canonically: maps sorted by rendered key, pointers
// followed (cycles cut), funcs/chans/mutexes skipped. It is how drivers read private implementation
// state for state keys without editing the repository.
func Dump(v any, skipFields ...string) string {
	var sb strings.Builder
	d := dumper{skip: map[string]bool{}, seen: map[uintptr]bool{}}
	for _, s := range skipFields {
		d.skip[s] = true
	}
	d.dump(&sb, reflect.ValueOf(v), 0)
	return sb.String()
}

// DumpV is Dump for a reflect.Value (e.g. an unexported field obtained with Field).
func DumpV(v reflect.Value) string {
	var sb strings.Builder
	d := dumper{skip: map[string]bool{}, seen: map[uintptr]bool{}}
	d.dump(&sb, v, 0)
	return sb.String()
}

type dumper struct {
	skip map[string]bool
	seen map[uintptr]bool
}

func (d *dumper) dump(sb *strings.Builder, v reflect.Value, depth int) {
	if depth > 12 {
		sb.WriteString("…")
		return
	}
	switch v.Kind() {
	case reflect.Invalid:
		sb.WriteString("nil")
	case reflect.Bool:
		fmt.Fprintf(sb, "%v", v.Bool())
	case reflect.Int, reflect.Int8, reflect.Int16, reflect.Int32, reflect.Int64:
		fmt.Fprintf(sb, "%d", v.Int())
	case reflect.Uint, reflect.Uint8, reflect.Uint16, reflect.Uint32, reflect.Uint64, reflect.Uintptr:
		fmt.Fprintf(sb, "%d", v.Uint())
	case reflect.Float32, reflect.Float64:
		fmt.Fprintf(sb, "%v", v.Float())
	case reflect.String:
		fmt.Fprintf(sb, "%q", v.String())
	case reflect.Ptr:
		if v.IsNil() {
			sb.WriteString("nil")
			return
		}
		p := v.Pointer()
		if d.seen[p] {
			sb.WriteString("^")
			return
		}
		d.seen[p] = true
		d.dump(sb, v.Elem(), depth+1)
		delete(d.seen, p)
	case reflect.Interface:
		if v.IsNil() {
			sb.WriteString("nil")
			return
		}
		d.dump(sb, v.Elem(), depth+1)
	case reflect.Struct:
		t := v.Type()
		if strings.HasPrefix(t.PkgPath(), "sync") || strings.Contains(t.PkgPath(), "verifshim") {
			sb.WriteString("_")
			return
		}
		sb.WriteString("{")
		for i := 0; i < v.NumField(); i++ {
			name := t.Field(i).Name
			if d.skip[name] || d.skip[t.Name()+"."+name] {
				continue
			}
			sb.WriteString(name)
			sb.WriteString(":")
			d.dump(sb, v.Field(i), depth+1)
			sb.WriteString(" ")
		}
		sb.WriteString("}")
	case reflect.Slice, reflect.Array:
		if v.Kind() == reflect.Slice && v.IsNil() {
			sb.WriteString("[]")
			return
		}
		if v.Type().Elem().Kind() == reflect.Uint8 {
			// byte data: hash-free short rendering
			n := v.Len()
			b := make([]byte, n)
			for i := 0; i < n; i++ {
				b[i] = byte(v.Index(i).Uint())
			}
			fmt.Fprintf(sb, "%x", b)
			return
		}
		sb.WriteString("[")
		for i := 0; i < v.Len(); i++ {
			d.dump(sb, v.Index(i), depth+1)
			sb.WriteString(",")
		}
		sb.WriteString("]")
	case reflect.Map:
		if v.IsNil() {
			sb.WriteString("map[]")
			return
		}
		var ents []string
		it := v.MapRange()
		for it.Next() {
			var kb, vb strings.Builder
			d.dump(&kb, it.Key(), depth+1)
			d.dump(&vb, it.Value(), depth+1)
			ents = append(ents, kb.String()+"=>"+vb.String())
		}
		sort.Strings(ents)
		sb.WriteString("map[" + strings.Join(ents, " ") + "]")
	default: // func, chan, unsafe pointer
		sb.WriteString("_")
	}
}

// Field returns the (possibly unexported) field of a struct value or pointer-to-struct, for reading.
func Field(v any, name string) reflect.Value {
	rv := reflect.ValueOf(v)
	for rv.Kind() == reflect.Ptr || rv.Kind() == reflect.Interface {
		rv = rv.Elem()
	}
	return rv.FieldByName(name)
}

// private state is read by reflection to refine state keys (and for two structural invariants). A field
// that was renamed or removed in the repository must not turn a check into a harness error: Safe returns
// "?" (a coarser key / a skipped clause) and the name is reported in the evidence notes.
var unreadable = map[string]bool{}

func Safe(name string, fn func() string) (out string) {
	defer func() {
		if r := recover(); r != nil {
			unreadable[name] = true
			out = "?"
		}
	}()
	return fn()
}

// MarkUnreadable records a private field the harness could not read.
func MarkUnreadable(name string) { unreadable[name] = true }

// UnreadableNotes lists what Safe could not read (for the evidence file).
func UnreadableNotes() []string {
	var out []string
	for n := range unreadable {
		out = append(out, "private state not readable by reflection (renamed?): "+n+" - state keys are coarser / the clause using it is skipped")
	}
	sort.Strings(out)
	return out
}
