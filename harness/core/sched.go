package core

import (
	"fmt"
	"os"
	"runtime"
	"strings"
	"time"

	"github.com/ryogrid/SamehadaDB/lib/verifshim/vrand"
	"github.com/ryogrid/SamehadaDB/lib/verifshim/vsched"
)

// Engine C: deviation(preemption)-bounded stateless search over the schedules of a small closed
// harness of real goroutines, run under the cooperative scheduler in verifshim/vsched.

// Scenario is one closed multi-threaded harness.
type Scenario struct {
	Name string
	// Setup builds fresh real objects and returns the thread bodies plus the per-execution oracle.
	// It runs in the (single-threaded) driver goroutine. Check is called after the execution ended.
	Setup func() *Harness
	Bound int  // preemption bound (-1 = unbounded)
	NoCD  bool // disable the conflict-directed point selection
	// FreeBound bounds the deviations from the default choice at points where the running thread is NOT
	// enabled (it blocked or finished), which cost no preemption. 0 = unbounded. Needed where the code
	// under test retries until success: always preferring the retrying thread over the thread it waits
	// for is an unfair schedule of unbounded length.
	FreeBound int
	MaxEx     int // cap on executions (0 = none); hitting it clears Exhaustive
	Params any // written into replay files so that the scenario can be rebuilt
	// TolerateDivergence: the scenario contains nondeterminism the harness cannot own (e.g. the buffer pool
	// flushing dirty pages in map iteration order); a prefix that does not replay is dropped and counted,
	// and the exploration is reported as not exhaustive.
	TolerateDivergence bool
}

type Harness struct {
	Threads []func()
	Names   []string
	// Chooser (optional) directs the schedule after the prefix (see vsched.Exec.Chooser)
	Chooser func(e *vsched.Exec, enabled []int, from *vsched.Thread) int
	// Check receives the finished execution; returns a violation or nil, and an outcome label.
	Check   func(x *ExecInfo) (*Violation, string)
	Cleanup func()
}

type ExecInfo struct {
	Trace    []vsched.Point
	Deadlock bool
	Horizon  bool
	Blocked  []string
	Panics   []string
	Choices  []int
	Preempt  int
}

func (x *ExecInfo) choices() []int {
	c := make([]int, len(x.Trace))
	for i, p := range x.Trace {
		c[i] = p.Chosen
	}
	return c
}

// RunSchedule runs the scenario once under the given choice prefix (choice 0 afterwards).
func RunSchedule(sc *Scenario, prefix []int) (*ExecInfo, *Violation, string, string) {
	vrand.Reset()
	vsched.ResetChannels()
	vsched.DropPendingSpawns()
	h := sc.Setup() // goroutines the library starts during set-up are adopted by the execution below
	e := vsched.NewExec(prefix)
	e.Chooser = h.Chooser
	var ths []*vsched.Thread
	for i, fn := range h.Threads {
		name := fmt.Sprintf("T%d", i)
		if i < len(h.Names) {
			name = h.Names[i]
		}
		ths = append(ths, e.Spawn(name, fn))
	}
	e.Run()
	x := &ExecInfo{Trace: e.Trace, Deadlock: e.Deadlock, Horizon: e.Horizon, Blocked: e.Blocked}
	for _, t := range e.Threads {
		if t.Panic != nil {
			x.Panics = append(x.Panics, fmt.Sprintf("%s: %v\n%s", t.Name, t.Panic, trimStack(t.Stack)))
		}
	}
	x.Choices = x.choices()
	for _, p := range x.Trace {
		if p.RunEn && p.Chosen != 0 {
			x.Preempt++
		}
	}
	var v *Violation
	outcome := ""
	if e.Diverged == "" {
		v, outcome = h.Check(x)
	}
	if h.Cleanup != nil {
		h.Cleanup()
	}
	return x, v, outcome, e.Diverged
}

func trimStack(s string) string {
	lines := strings.Split(s, "\n")
	var keep []string
	for _, l := range lines {
		if strings.Contains(l, "SamehadaDB/lib/") && !strings.Contains(l, "verifshim") {
			keep = append(keep, strings.TrimSpace(l))
			if len(keep) >= 8 {
				break
			}
		}
	}
	return strings.Join(keep, " | ")
}

type workItem struct {
	prefix []int
	from   int // first point index at which children may deviate
}

// ExploreSched enumerates all schedules of sc with at most sc.Bound preemptions.
func ExploreSched(c *Ctx, sc *Scenario) { exploreSched(c, sc, true) }

// ExploreSchedWhole explores the whole scenario in this worker (the caller partitions scenarios).
func ExploreSchedWhole(c *Ctx, sc *Scenario) { exploreSched(c, sc, false) }

func exploreSched(c *Ctx, sc *Scenario, split bool) {
	res := c.Res
	defer func() {
		res.Extra["recursive_read_lock_acquisitions"] = float64(vsched.RecursiveReads)
		if vsched.RecursiveReads > 0 {
			var sites []string
			for s, n := range vsched.RecursiveReadSites {
				sites = append(sites, fmt.Sprintf("%s x%d", s, n))
			}
			res.Note("a thread re-acquired an RW lock it already held in read mode (%d times; sites: %s): under sync.RWMutex's writer preference this can deadlock, the scheduler models no writer preference", vsched.RecursiveReads, strings.Join(sites, "; "))
		}
	}()
	if b, err := os.ReadFile(buildDir() + "/ov/warnings.txt"); err == nil && len(b) > 0 {
		for _, w := range strings.Split(string(b), "\n") {
			res.Note("not under the scheduler's control: %s", w)
		}
	}
	res.Bound[sc.Name+".preemption_bound"] = sc.Bound
	res.Bound[sc.Name+".conflict_directed"] = !sc.NoCD
	if sc.FreeBound > 0 {
		res.Bound[sc.Name+".non_preemptive_deviation_bound"] = sc.FreeBound
	}
	execs := int64(0)
	maxLen := int64(0)
	outcomes := map[string]bool{}
	capped := false

	// expand one execution into its child work items
	children := func(x *ExecInfo, from int) []workItem {
		var out []workItem
		// objects touched by more than one thread in this execution
		shared := map[uint32]bool{}
		if !sc.NoCD {
			first := map[uint32]int{}
			for _, p := range x.Trace {
				if p.Thread < 0 || p.Obj == 0 {
					continue
				}
				if t, ok := first[p.Obj]; !ok {
					first[p.Obj] = p.Thread
				} else if t != p.Thread {
					shared[p.Obj] = true
				}
			}
		}
		pre, free := 0, 0
		for i, p := range x.Trace {
			if i >= from && len(p.Enabled) > 1 {
				cost := pre
				if p.RunEn {
					cost++
				}
				ok := sc.Bound < 0 || cost <= sc.Bound
				if !p.RunEn && sc.FreeBound > 0 && free+1 > sc.FreeBound {
					ok = false
				}
				if ok && p.RunEn && !sc.NoCD && p.Obj != 0 && !shared[p.Obj] {
					ok = false // private object: preempting here is equivalent to preempting at the thread's next shared point
				}
				if ok {
					for alt := 0; alt < len(p.Enabled); alt++ {
						if alt == p.Chosen {
							continue
						}
						pf := append(append([]int{}, x.Choices[:i]...), alt)
						out = append(out, workItem{prefix: pf, from: i + 1})
					}
				}
			}
			if p.RunEn && p.Chosen != 0 {
				pre++
			}
			if !p.RunEn && p.Chosen != 0 {
				free++
			}
		}
		return out
	}

	run := func(w workItem, count bool) (*ExecInfo, bool) {
		x, v, outcome, div := RunSchedule(sc, w.prefix)
		// goroutines that the code under test leaves behind (or that an execution could not unwind) add up
		// over millions of executions; the race detector dies at 8128 live goroutines. Stop this worker's
		// exploration cleanly (not exhaustive) well before that.
		if n := runtime.NumGoroutine(); n > 5000 {
			res.Exhaustive = false
			res.Note("%s: %d goroutines alive in the worker process: exploration stopped early (the race detector supports 8128)", sc.Name, n)
			c.Deadline = time.Now()
		} else if float64(n) > asFloat(res.Extra["max_goroutines_in_worker"]) {
			res.Extra["max_goroutines_in_worker"] = float64(n)
		}
		if div != "" {
			if sc.TolerateDivergence {
				res.Exhaustive = false
				res.Note("%s: some schedule prefixes did not replay (nondeterminism inside the scenario that the harness does not own); they were dropped", sc.Name)
				res.PerOp[sc.Name+".diverged_prefixes"]++
				return nil, false
			}
			res.Nondet = append(res.Nondet, fmt.Sprintf("%s: replay of prefix diverged: %s", sc.Name, div))
			return nil, false
		}
		if count {
			execs++
			res.States++
			res.Traces++
			res.Transitions += int64(len(x.Trace))
			if int64(len(x.Trace)) > maxLen {
				maxLen = int64(len(x.Trace))
				res.Extra[sc.Name+".longest_execution_points"] = float64(maxLen)
				res.Extra[sc.Name+".longest_execution_schedule"] = compress(x.Choices)
			}
			if outcome != "" {
				res.Outcome(sc.Name + ":" + outcome)
				if !outcomes[outcome] {
					outcomes[outcome] = true
					res.Sample(map[string]any{"scenario": sc.Name, "outcome": outcome, "schedule": compress(x.Choices), "points": len(x.Trace), "preemptions": x.Preempt})
				}
			}
		}
		if v != nil {
			if v.Replay == nil {
				v.Replay = map[string]any{"scenario": sc.Name, "choices": x.Choices, "params": sc.Params}
			}
			v.Detail = fmt.Sprintf("%s\nschedule (%d points, %d preemptions): %s", v.Detail, len(x.Trace), x.Preempt, compress(x.Choices))
			// same schedule must fail the same way every time
			stable := true
			for k := 0; k < 4; k++ {
				_, v2, _, d2 := RunSchedule(sc, x.Choices)
				if d2 != "" || v2 == nil || v2.Signature != v.Signature {
					stable = false
					break
				}
			}
			if !stable {
				res.Nondet = append(res.Nondet, fmt.Sprintf("%s: violation not reproducible under its own schedule: %s", sc.Name, v.Signature))
			} else {
				res.Violate(v)
			}
		}
		return x, true
	}

	// level 0 and 1 are run by every worker (counted by shard 0 only); deeper subtrees are partitioned
	mine := func(i int) bool { return !split || c.Mine(i) }
	first := !split || c.Shard == 0
	root, ok := run(workItem{}, first)
	if !ok {
		return
	}
	level1 := children(root, 0)
	var level2 []workItem
	for _, w := range level1 {
		x, ok := run(w, first)
		if !ok {
			continue
		}
		level2 = append(level2, children(x, w.from)...)
	}
	var stack []workItem
	for i, w := range level2 {
		if mine(i) {
			stack = append(stack, w)
		}
	}
	for len(stack) > 0 {
		if c.Expired() {
			break
		}
		if sc.MaxEx > 0 && execs >= int64(sc.MaxEx) {
			capped = true
			break
		}
		w := stack[len(stack)-1]
		stack = stack[:len(stack)-1]
		x, ok := run(w, true)
		if !ok {
			continue
		}
		stack = append(stack, children(x, w.from)...)
	}
	if capped {
		res.Exhaustive = false
		res.Note("%s: execution cap %d reached", sc.Name, sc.MaxEx)
	}
	if o, ok := res.Extra[sc.Name+".executions"].(float64); ok {
		execs += int64(o)
	}
	res.Extra[sc.Name+".executions"] = float64(execs)
}

func compress(ch []int) string {
	// run-length: "0x57 1 0x12 2 ..."
	var sb strings.Builder
	i := 0
	for i < len(ch) {
		j := i
		for j < len(ch) && ch[j] == ch[i] {
			j++
		}
		if j-i > 1 {
			fmt.Fprintf(&sb, "%dx%d ", ch[i], j-i)
		} else {
			fmt.Fprintf(&sb, "%d ", ch[i])
		}
		i = j
	}
	return strings.TrimSpace(sb.String())
}


func asFloat(v any) float64 {
	f, _ := v.(float64)
	return f
}

func buildDir() string {
	if d := os.Getenv("VERIF_BUILD"); d != "" {
		return d
	}
	return "/verif/.build"
}
