// Package core is the plumbing shared by all property drivers: worker sharding, result merging,
// known-findings handling, evidence files, replay artefacts and the exit-code contract.
package core

import (
	"bufio"
	"crypto/sha1"
	"encoding/json"
	"fmt"
	"os"
	"os/exec"
	"path/filepath"
	"runtime"
	"runtime/debug"
	"sort"
	"strconv"
	"strings"
	"sync"
	"time"
)

const VerifDir = "/verif"

// OutDir is where evidence and replay files go: /verif, unless VERIF_OUT names another directory (the
// detection-regression runs of bin/seedall on a scratch copy of the repository must not overwrite the
// evidence of the real tree).
func OutDir() string {
	if d := os.Getenv("VERIF_OUT"); d != "" {
		return d
	}
	return VerifDir
}

// Violation is one execution of the real code that contradicts a property.
type Violation struct {
	Property  string `json:"property"`
	Signature string `json:"signature"` // stable identity of the finding (never "any violation of Cxx")
	Detail    string `json:"detail"`
	Replay    any    `json:"replay"` // driver-specific, JSON; fed back through `verifcheck -replay`
	Count     int64  `json:"count"`
	// Ignore marks a dead end that is not a violation of this property (the branch is not expanded).
	Ignore bool `json:"-"`
}

// Result is what one worker (or the merged run) covered.
type Result struct {
	States      int64            `json:"states"`
	Transitions int64            `json:"transitions"`
	Traces      int64            `json:"traces_validated_against_impl"`
	Outcomes    map[string]int64 `json:"distinct_outcomes"`
	PerOp       map[string]int64 `json:"per_op_counts"`
	Samples     []any            `json:"samples"`
	Violations  []*Violation     `json:"violations"`
	Exhaustive  bool             `json:"exhaustive"`
	Bound       map[string]any   `json:"bounds"`
	Completed   string           `json:"completed_bound"`
	Notes       []string         `json:"notes"`
	Extra       map[string]any   `json:"extra"`
	Nondet      []string         `json:"harness_nondeterminism"`
	seenStates  map[string]struct{}
}

func NewResult() *Result {
	return &Result{Outcomes: map[string]int64{}, PerOp: map[string]int64{}, Exhaustive: true,
		Bound: map[string]any{}, Extra: map[string]any{}}
}

func (r *Result) Outcome(k string) { r.Outcomes[k]++ }
func (r *Result) Op(k string)      { r.PerOp[k]++ }
func (r *Result) Note(f string, a ...any) {
	s := fmt.Sprintf(f, a...)
	for _, n := range r.Notes {
		if n == s {
			return
		}
	}
	r.Notes = append(r.Notes, s)
}
func (r *Result) Sample(v any) {
	if len(r.Samples) < 6 {
		r.Samples = append(r.Samples, v)
	}
}

// Violate records a violation, deduplicated by signature.
func (r *Result) Violate(v *Violation) {
	for _, o := range r.Violations {
		if o.Signature == v.Signature && o.Property == v.Property {
			o.Count++
			return
		}
	}
	v.Count = 1
	r.Violations = append(r.Violations, v)
}

// Ctx is handed to a driver.
type Ctx struct {
	Prop     string
	Tier     string // quick | thorough
	Shard    int
	Of       int
	Seed     int64
	Deadline time.Time
	Res      *Result
}

func (c *Ctx) Thorough() bool { return c.Tier == "thorough" }

// Mine reports whether work item i belongs to this worker.
func (c *Ctx) Mine(i int) bool { return i%c.Of == c.Shard }

// Expired reports whether the internal deadline passed; the driver must then stop and the run is
// reported as not exhaustive (exit 0, never a verdict).
func (c *Ctx) Expired() bool {
	if time.Now().After(c.Deadline) {
		if c.Res.Exhaustive {
			c.Res.Exhaustive = false
			c.Res.Note("internal deadline reached: exploration stopped early")
		}
		return true
	}
	return false
}

type Driver struct {
	Prop     string
	Level    string // model_checking
	Run      func(c *Ctx)
	Replay   func(raw json.RawMessage) (string, bool) // returns description, violated?
	Workers  func(tier string) int
	Budget   func(tier string) time.Duration
	Assume   []string
	Serial   bool                                       // single worker only
	Env      func(workerDir string, shard int) []string // extra environment for the workers
	PostProc func(merged *Result)
}

var Drivers = map[string]*Driver{}

func Register(d *Driver) { Drivers[d.Prop] = d }

// ---------------------------------------------------------------------------------------------

type finding struct {
	kind, prop, sig, text string
}

func loadFindings() []finding {
	var out []finding
	f, err := os.Open(filepath.Join(VerifDir, "known_findings.txt"))
	if err != nil {
		return nil
	}
	defer f.Close()
	sc := bufio.NewScanner(f)
	sc.Buffer(make([]byte, 1<<20), 1<<20)
	for sc.Scan() {
		line := strings.TrimSpace(sc.Text())
		if line == "" || strings.HasPrefix(line, "#") {
			continue
		}
		// known: property=C09 sig=<sig-without-spaces> free text
		// fixed: property=C10 <commit> free text
		parts := strings.Fields(line)
		if len(parts) < 3 {
			continue
		}
		fd := finding{kind: strings.TrimSuffix(parts[0], ":")}
		if !strings.HasPrefix(parts[1], "property=") {
			continue
		}
		fd.prop = strings.TrimPrefix(parts[1], "property=")
		if fd.kind == "known" && strings.HasPrefix(parts[2], "sig=") {
			fd.sig = strings.TrimPrefix(parts[2], "sig=")
			fd.text = strings.Join(parts[3:], " ")
			out = append(out, fd)
		}
	}
	return out
}

// Main is the entry point of cmd/verifcheck.
func Main(args []string) int {
	var prop, tier, out, replay string
	shard, of := -1, 0
	for i := 0; i < len(args); i++ {
		switch args[i] {
		case "-prop":
			i++
			prop = args[i]
		case "-tier":
			i++
			tier = args[i]
		case "-shard":
			i++
			shard, _ = strconv.Atoi(args[i])
		case "-of":
			i++
			of, _ = strconv.Atoi(args[i])
		case "-out":
			i++
			out = args[i]
		case "-replay":
			i++
			replay = args[i]
		}
	}
	if replay != "" {
		return doReplay(replay)
	}
	d := Drivers[prop]
	if d == nil {
		fmt.Fprintf(os.Stderr, "unknown property %q\n", prop)
		return 2
	}
	if tier == "" {
		tier = os.Getenv("VERIF_TIER")
	}
	if tier != "thorough" {
		tier = "quick"
	}
	if shard >= 0 {
		return worker(d, tier, shard, of, out)
	}
	return parent(d, tier)
}

func seed() int64 {
	s, _ := strconv.ParseInt(os.Getenv("VERIF_SEED"), 10, 64)
	return s
}

func budget(d *Driver, tier string) time.Duration {
	if d.Budget != nil {
		return d.Budget(tier)
	}
	if tier == "thorough" {
		return 25 * time.Minute
	}
	return 150 * time.Second
}

func worker(d *Driver, tier string, shard, of int, out string) int {
	debug.SetMemoryLimit(3 << 30)
	// the library prints a lot
	if os.Getenv("VERIF_KEEP_STDOUT") == "" {
		if dn, err := os.OpenFile("/dev/null", os.O_WRONLY, 0); err == nil {
			os.Stdout = dn
		}
	}
	c := &Ctx{Prop: d.Prop, Tier: tier, Shard: shard, Of: of, Seed: seed(), Res: NewResult(),
		Deadline: time.Now().Add(budget(d, tier))}
	// memory watchdog: never let a runaway exploration take the sandbox down
	go func() {
		var ms runtime.MemStats
		for {
			time.Sleep(2 * time.Second)
			runtime.ReadMemStats(&ms)
			if ms.HeapAlloc > 6<<30 {
				fmt.Fprintf(os.Stderr, "worker %d: heap %d MB, giving up (not exhaustive)\n", shard, ms.HeapAlloc>>20)
				c.Res.Exhaustive = false
				c.Res.Note("worker memory watchdog fired")
				writeJSON(out, c.Res)
				os.Exit(0)
			}
		}
	}()
	func() {
		defer func() {
			if r := recover(); r != nil {
				c.Res.Nondet = append(c.Res.Nondet, fmt.Sprintf("driver panic: %v\n%s", r, debug.Stack()))
			}
		}()
		d.Run(c)
	}()
	for _, n := range UnreadableNotes() {
		c.Res.Note("%s", n)
	}
	writeJSON(out, c.Res)
	return 0
}

func writeJSON(path string, v any) {
	b, err := json.Marshal(v)
	if err != nil {
		fmt.Fprintf(os.Stderr, "marshal: %v\n", err)
		os.Exit(2)
	}
	tmp := path + ".tmp"
	os.WriteFile(tmp, b, 0o644)
	os.Rename(tmp, path)
}

func parent(d *Driver, tier string) int {
	start := time.Now()
	n := runtime.NumCPU()
	if d.Workers != nil {
		n = d.Workers(tier)
	}
	if d.Serial {
		n = 1
	}
	if n < 1 {
		n = 1
	}
	// replay artefacts of earlier runs of this property are stale
	if old, _ := filepath.Glob(filepath.Join(OutDir(), "replays", d.Prop, "*.json")); len(old) > 0 {
		for _, f := range old {
			os.Remove(f)
		}
	}
	dir := fmt.Sprintf("/dev/shm/verif-%s-%d", d.Prop, os.Getpid())
	os.MkdirAll(dir, 0o755)
	defer os.RemoveAll(dir)
	self, _ := os.Executable()
	var wg sync.WaitGroup
	fails := make([]string, n)
	hard := budget(d, tier) + 5*time.Minute
	for i := 0; i < n; i++ {
		wg.Add(1)
		go func(i int) {
			defer wg.Done()
			out := filepath.Join(dir, fmt.Sprintf("w%d.json", i))
			cmd := exec.Command(self, "-prop", d.Prop, "-tier", tier, "-shard", strconv.Itoa(i), "-of", strconv.Itoa(n), "-out", out)
			cmd.Env = append(os.Environ(), "GOMAXPROCS=2", "VERIF_SCRATCH="+filepath.Join(dir, fmt.Sprintf("s%d", i)))
			if d.Env != nil {
				cmd.Env = append(cmd.Env, d.Env(dir, i)...)
			}
			cmd.Dir = dir
			logf, _ := os.Create(filepath.Join(dir, fmt.Sprintf("w%d.log", i)))
			cmd.Stdout = logf
			cmd.Stderr = logf
			if err := cmd.Start(); err != nil {
				fails[i] = err.Error()
				return
			}
			done := make(chan error, 1)
			go func() { done <- cmd.Wait() }()
			select {
			case err := <-done:
				if err != nil {
					tail := tailFile(logf.Name(), 3000)
					fails[i] = fmt.Sprintf("worker %d: %v\n%s%s", i, err, causeLines(logf.Name()), tail)
				}
			case <-time.After(hard):
				cmd.Process.Kill()
				fails[i] = fmt.Sprintf("worker %d: hard timeout", i)
			}
			logf.Close()
		}(i)
	}
	wg.Wait()
	merged := NewResult()
	crashed := 0
	died := 0
	for i := 0; i < n; i++ {
		var r Result
		b, err := os.ReadFile(filepath.Join(dir, fmt.Sprintf("w%d.json", i)))
		if err != nil || json.Unmarshal(b, &r) != nil {
			crashed++
			if !strings.Contains(fails[i], "hard timeout") {
				died++
			}
			merged.Exhaustive = false
			merged.Note("worker %d produced no result: %s", i, firstLine(fails[i]))
			fmt.Fprintf(os.Stderr, "WORKER-FAILURE %s\n", fails[i])
			continue
		}
		merge(merged, &r)
	}
	if d.PostProc != nil {
		d.PostProc(merged)
	}
	known := loadFindings()
	exit := 0
	var knownHit []string
	unlisted := 0
	sort.Slice(merged.Violations, func(i, j int) bool { return merged.Violations[i].Signature < merged.Violations[j].Signature })
	for _, v := range merged.Violations {
		listed := false
		for _, k := range known {
			if k.prop == v.Property && k.sig == v.Signature {
				listed = true
				fmt.Printf("KNOWN-FINDING: property=%s %s [sig=%s, %d executions]\n", v.Property, k.text, v.Signature, v.Count)
				knownHit = append(knownHit, v.Signature)
			}
		}
		if listed {
			continue
		}
		unlisted++
		exit = 1
		if unlisted > 25 {
			continue // the summary line below says how many more there are
		}
		path := writeReplay(d.Prop, v)
		fmt.Printf("VIOLATION property=%s replay=%s\n", v.Property, path)
		fmt.Printf("  signature: %s\n  detail: %s\n  executions: %d\n", v.Signature, firstN(v.Detail, 1500), v.Count)
	}
	if unlisted > 25 {
		fmt.Printf("... and %d more distinct violation signatures (not printed)\n", unlisted-25)
	}
	if len(merged.Nondet) > 0 {
		for _, s := range merged.Nondet {
			fmt.Fprintf(os.Stderr, "HARNESS-ERROR %s\n", s)
		}
		if exit == 0 {
			exit = 2
		}
	}
	if crashed == n || died > 0 {
		fmt.Fprintf(os.Stderr, "%d of %d workers failed (%d died)\n", crashed, n, died)
		if exit == 0 {
			exit = 2
		}
	}
	wall := time.Since(start).Seconds()
	writeEvidence(d, tier, merged, knownHit, unlisted, wall)
	fmt.Printf("%s %s: states=%d transitions=%d traces=%d outcomes=%d exhaustive=%v violations(unlisted)=%d known=%d wall=%.1fs\n",
		d.Prop, tier, merged.States, merged.Transitions, merged.Traces, len(merged.Outcomes), merged.Exhaustive, unlisted, len(knownHit), wall)
	return exit
}

func firstLine(s string) string {
	if i := strings.IndexByte(s, '\n'); i >= 0 {
		return s[:i]
	}
	return s
}

func firstN(s string, n int) string {
	if len(s) > n {
		return s[:n] + "…"
	}
	return s
}

func tailFile(p string, n int) string {
	b, _ := os.ReadFile(p)
	if len(b) > n {
		b = b[len(b)-n:]
	}
	return string(b)
}

func merge(m, r *Result) {
	m.States += r.States
	m.Transitions += r.Transitions
	m.Traces += r.Traces
	for k, v := range r.Outcomes {
		m.Outcomes[k] += v
	}
	for k, v := range r.PerOp {
		m.PerOp[k] += v
	}
	for _, s := range r.Samples {
		if len(m.Samples) < 8 {
			m.Samples = append(m.Samples, s)
		}
	}
	for _, v := range r.Violations {
		found := false
		for _, o := range m.Violations {
			if o.Signature == v.Signature && o.Property == v.Property {
				o.Count += v.Count
				found = true
			}
		}
		if !found {
			m.Violations = append(m.Violations, v)
		}
	}
	if !r.Exhaustive {
		m.Exhaustive = false
	}
	for k, v := range r.Bound {
		m.Bound[k] = v
	}
	if r.Completed != "" && (m.Completed == "" || r.Completed < m.Completed) {
		m.Completed = r.Completed
	}
	for _, n := range r.Notes {
		m.Note("%s", n)
	}
	for k, v := range r.Extra {
		// numeric extras are summed (maxima are kept for keys naming a longest/largest), everything else: last wins
		if f, ok := v.(float64); ok && (strings.Contains(k, "longest") || strings.Contains(k, "max")) {
			if o, ok2 := m.Extra[k].(float64); !ok2 || f > o {
				m.Extra[k] = f
			}
			continue
		}
		if f, ok := v.(float64); ok {
			if o, ok2 := m.Extra[k].(float64); ok2 {
				m.Extra[k] = o + f
				continue
			}
		}
		m.Extra[k] = v
	}
	m.Nondet = append(m.Nondet, r.Nondet...)
}

func writeReplay(prop string, v *Violation) string {
	dir := filepath.Join(OutDir(), "replays", prop)
	os.MkdirAll(dir, 0o755)
	h := sha1.Sum([]byte(v.Signature))
	p := filepath.Join(dir, fmt.Sprintf("%x.json", h[:6]))
	b, _ := json.MarshalIndent(map[string]any{"property": prop, "signature": v.Signature, "detail": v.Detail, "replay": v.Replay}, "", " ")
	os.WriteFile(p, b, 0o644)
	return p
}

func doReplay(path string) int {
	b, err := os.ReadFile(path)
	if err != nil {
		fmt.Fprintln(os.Stderr, err)
		return 2
	}
	var f struct {
		Property string          `json:"property"`
		Replay   json.RawMessage `json:"replay"`
	}
	if err := json.Unmarshal(b, &f); err != nil {
		fmt.Fprintln(os.Stderr, err)
		return 2
	}
	d := Drivers[f.Property]
	if d == nil || d.Replay == nil {
		fmt.Fprintf(os.Stderr, "no replay support for %s\n", f.Property)
		return 2
	}
	desc, bad := d.Replay(f.Replay)
	fmt.Println(desc)
	if bad {
		fmt.Printf("VIOLATION property=%s replay=%s\n", f.Property, path)
		return 1
	}
	fmt.Println("replay: property held")
	return 0
}

func writeEvidence(d *Driver, tier string, m *Result, knownHit []string, unlisted int, wall float64) {
	samples := m.Samples
	if len(samples) == 0 {
		samples = []any{"(no sample recorded)"}
	}
	states, trans := m.States, m.Transitions
	cov := map[string]any{
		"states":                        states,
		"transitions":                   trans,
		"traces_validated_against_impl": m.Traces,
		"samples":                       samples,
		"exhaustive":                    m.Exhaustive,
		"distinct_outcomes":             m.Outcomes,
		"distinct_outcome_count":        len(m.Outcomes),
		"per_op_counts":                 m.PerOp,
		"bounds":                        m.Bound,
		"completed_bound":               m.Completed,
		"notes":                         m.Notes,
		"known_findings_hit":            knownHit,
		"evaluations":                   m.Traces,
		"distinct_nontrivial":           states,
		"rule":                          "every execution is a run of the real implementation; states = distinct canonical implementation states / crash images / completed schedules as described in DESIGN.md for this property",
	}
	for k, v := range m.Extra {
		cov[k] = v
	}
	ev := map[string]any{
		"property_id": d.Prop,
		"tier":        tier,
		"seed":        seed(),
		"level":       "model_checking",
		"coverage":    cov,
		"assumptions": d.Assume,
		"wall_s":      wall,
		"violations":  unlisted,
	}
	os.MkdirAll(filepath.Join(OutDir(), "evidence"), 0o755)
	b, _ := json.MarshalIndent(ev, "", " ")
	os.WriteFile(filepath.Join(OutDir(), "evidence", d.Prop+".json"), b, 0o644)
}

// Scratch returns a private tmpfs directory for this worker.
func Scratch() string {
	d := os.Getenv("VERIF_SCRATCH")
	if d == "" {
		d = fmt.Sprintf("/dev/shm/verif-scratch-%d", os.Getpid())
	}
	os.MkdirAll(d, 0o755)
	return d
}

// JS renders any value as compact JSON (for signatures and samples).
func JS(v any) string {
	b, _ := json.Marshal(v)
	return string(b)
}


// causeLines extracts the lines of a dead worker's log that say why it died (the tail is usually the
// middle of a goroutine dump).
func causeLines(path string) string {
	b, err := os.ReadFile(path)
	if err != nil {
		return ""
	}
	var out []string
	for _, l := range strings.Split(string(b), "\n") {
		if strings.HasPrefix(l, "fatal error:") || strings.HasPrefix(l, "panic:") || strings.HasPrefix(l, "race:") ||
			strings.Contains(l, "dying") || strings.HasPrefix(l, "runtime: ") || strings.HasPrefix(l, "signal: ") || strings.HasPrefix(l, "SIG") {
			out = append(out, "CAUSE: "+l)
			if len(out) >= 8 {
				break
			}
		}
	}
	if len(out) == 0 {
		return ""
	}
	return strings.Join(out, "\n") + "\n"
}
