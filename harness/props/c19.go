package props

// C19 — concurrent use of the engine is free of data races on the data path.
// Engine C with a -race build: the schedule explorer runs the concurrent harness bodies of C04/C05/C12/C17
// plus a maintenance scenario (forced checkpoint and statistics update next to DML, small pool) under the
// controlled scheduler; the Go race detector is the per-schedule oracle. Hand-offs between controlled
// threads are wrapped in runtime.RaceDisable/RaceEnable, so they add no happens-before edges: the detector
// sees exactly the synchronisation the program itself performs (the shim mutexes still do the real
// sync.Mutex operation). Schedule enumeration is what reaches the rarely executed branches.

import (
	"encoding/json"
	"fmt"
	"os"
	"path/filepath"
	"regexp"
	"sort"
	"strings"
	"time"

	"github.com/ryogrid/SamehadaDB/lib/concurrency"
	"github.com/ryogrid/SamehadaDB/lib/recovery"
	"github.com/ryogrid/SamehadaDB/lib/storage/buffer"
	"github.com/ryogrid/SamehadaDB/lib/storage/disk"
	"github.com/ryogrid/SamehadaDB/lib/storage/page"
	"github.com/ryogrid/SamehadaDB/lib/types"
	"github.com/ryogrid/SamehadaDB/lib/verifshim/vsched"

	"verif/core"
)

// maintenance scenario: DML next to a forced checkpoint and a statistics pass, pool of 8 frames... the
// harness calls exactly what the two background threads call.
func c19Maintenance() *core.Scenario {
	return &core.Scenario{
		Name:               "c19/dml||checkpoint||statistics",
		Bound:              1,
		TolerateDivergence: true, // FlushAllDirtyPages walks a Go map
		Setup: func() *core.Harness {
			dir := NewDir("c19")
			db, f := OpenDB(dir+"/d", 40)
			if f != nil {
				panic(f.String())
			}
			td := sqlTable()
			db.MustAuto(td.CreateSQL())
			for k := 1; k <= 7; k++ {
				db.MustAuto((&Stmt{Kind: "insert", Table: "t", Cols: []string{"k", "v"}, Rows: [][]any{{int32(k), bigStr(fmt.Sprintf("s%d", k), 600)}}}).SQL())
			}
			upd := &Stmt{Kind: "update", Table: "t", Set: []SetItem{{"v", bigStr("U", 610)}}, Where: Leaf{"k", "=", int32(2)}}
			ins := &Stmt{Kind: "insert", Table: "t", Cols: []string{"k", "v"}, Rows: [][]any{{int32(9), bigStr("N", 600)}}}
			stats := concurrency.NewStatisticsUpdater(db.TM(), db.Cat())
			h := &core.Harness{Names: []string{"dml", "checkpoint", "statistics"}}
			h.Threads = []func(){
				func() { db.Auto(upd.SQL()); db.Auto(ins.SQL()) },
				func() { db.Checkpoint() },
				func() { guard(func() { stats.UpdateAllTablesStatistics() }) },
			}
			h.Check = func(x *core.ExecInfo) (*core.Violation, string) { return nil, fmt.Sprintf("deadlock=%v panics=%d", x.Deadlock, len(x.Panics)) }
			h.Cleanup = func() { db.Kill(); removeAll(dir) }
			return h
		},
	}
}

// c19BPMScenarios: two goroutines on a buffer pool of one or two frames, so that every fetch / new page of
// one thread victimises the frame the other thread has just unpinned, flushed or deallocated. (At SQL level
// a 32-frame pool never evicts; these are the operations every statement performs underneath.)
func c19BPMScenarios() []*core.Scenario {
	type body func(bpm *buffer.BufferPoolManager, pids []types.PageID)
	// a pin holder changes the page the way the library's own page code does: under the write latch, through
	// Page.Copy (a library frame: the report is then attributed to library code on both sides)
	touch := func(pg *page.Page, b byte) {
		pg.WLatch()
		pg.Copy(100, []byte{b})
		pg.WUnlatch()
	}
	fetchDirty := func(i int) body {
		return func(bpm *buffer.BufferPoolManager, pids []types.PageID) {
			if pg := bpm.FetchPage(pids[i]); pg != nil {
				touch(pg, byte(i+1))
				bpm.UnpinPage(pids[i], true)
			}
		}
	}
	fetchClean := func(i int) body {
		return func(bpm *buffer.BufferPoolManager, pids []types.PageID) {
			if pg := bpm.FetchPage(pids[i]); pg != nil {
				bpm.UnpinPage(pids[i], false)
			}
		}
	}
	newPage := func(bpm *buffer.BufferPoolManager, pids []types.PageID) {
		if pg := bpm.NewPage(); pg != nil {
			touch(pg, 9)
			bpm.UnpinPage(pg.GetPageID(), true)
		}
	}
	flush := func(i int) body {
		return func(bpm *buffer.BufferPoolManager, pids []types.PageID) { bpm.FlushPage(pids[i]) }
	}
	flushAll := func(bpm *buffer.BufferPoolManager, pids []types.PageID) { bpm.FlushAllDirtyPages() }
	dealloc := func(i int) body {
		return func(bpm *buffer.BufferPoolManager, pids []types.PageID) { bpm.DeallocatePage(pids[i], true) }
	}
	seq := func(bs ...body) body {
		return func(bpm *buffer.BufferPoolManager, pids []types.PageID) {
			for _, b := range bs {
				b(bpm, pids)
			}
		}
	}
	// a committing session next to an eviction: append a record and force the log (what Commit does)
	commitLike := func(bpm *buffer.BufferPoolManager, pids []types.PageID) {
		c19Log.AppendLogRecord(recovery.NewLogRecordTxn(types.TxnID(7), types.LSN(-1), recovery.BEGIN))
		c19Log.Flush()
	}
	type sc struct {
		name   string
		frames int
		th     []body
	}
	list := []sc{
		{"dirty-unpin(p0)||fetch(p1)", 1, []body{fetchDirty(0), fetchClean(1)}},
		{"dirty-unpin(p0)||new-page", 1, []body{fetchDirty(0), newPage}},
		{"dirty-unpin(p0);fetch(p1)||fetch(p2);dirty-unpin(p0)", 2, []body{seq(fetchDirty(0), fetchClean(1)), seq(fetchClean(2), fetchDirty(0))}},
		{"dirty-unpin(p0)||flush(p0);fetch(p1)", 2, []body{fetchDirty(0), seq(flush(0), fetchClean(1))}},
		{"dirty-unpin(p0)||flush-all;fetch(p1)", 1, []body{fetchDirty(0), seq(flushAll, fetchClean(1))}},
		{"dirty-unpin(p0)||dealloc(p0);new-page", 2, []body{fetchDirty(0), seq(dealloc(0), newPage)}},
		{"new-page||new-page", 2, []body{newPage, newPage}},
		{"log/dirty-unpin(p0);fetch(p1)||append+force-log", 1, []body{seq(fetchDirty(0), fetchClean(1)), commitLike}},
		{"log/new-page||append+force-log", 1, []body{seq(fetchDirty(0), newPage), commitLike}},
		{"fetch(p0)||fetch(p0)", 1, []body{fetchDirty(0), fetchClean(0)}},
	}
	var out []*core.Scenario
	for _, x := range list {
		x := x
		out = append(out, &core.Scenario{
			Name: "c19/bpm/" + x.name, Bound: 1,
			Setup: func() *core.Harness {
				dm := disk.NewVirtualDiskManagerImpl("c19bpm.db")
				if c17Log == nil {
					ldm := disk.NewVirtualDiskManagerImpl("c17log.db")
					c17Log = recovery.NewLogManager(&ldm)
				}
				lg := c17Log
				if strings.HasPrefix(x.name, "log/") {
					// these two run with logging switched on (one shared log manager: it is 1 MB)
					if c19Log == nil {
						ldm := disk.NewVirtualDiskManagerImpl("c19log.db")
						c19Log = recovery.NewLogManager(&ldm)
						c19Log.ActivateLogging()
					}
					lg = c19Log
					// the log has been forced before: evicted pages (page LSN 0) are covered by the durable log
					c19Log.AppendLogRecord(recovery.NewLogRecordTxn(types.TxnID(1), types.LSN(-1), recovery.BEGIN))
					c19Log.Flush()
				}
				bpm := buffer.NewBufferPoolManager(uint32(x.frames), dm, lg)
				var pids []types.PageID
				for i := 0; i < 3; i++ {
					pg := bpm.NewPage()
					pg.Data()[100] = byte(0x40 + i)
					pids = append(pids, pg.GetPageID())
					bpm.UnpinPage(pg.GetPageID(), true)
				}
				bpm.FlushAllPages()
				h := &core.Harness{}
				for i, b := range x.th {
					b := b
					h.Names = append(h.Names, fmt.Sprintf("user%d", i))
					h.Threads = append(h.Threads, func() { guard(func() { b(bpm, pids) }) })
				}
				h.Check = func(*core.ExecInfo) (*core.Violation, string) { return nil, "" }
				return h
			},
		})
	}
	return out
}

var c19Log *recovery.LogManager

var raceSiteRe = regexp.MustCompile(`^\s+(\S+)\(.*\)$|^\s+(\S+)\(\)$`)

type raceReport struct {
	a, b   string // first library frames of the two accesses (function names without line numbers)
	fa, fb string // their files
	text   string
	// viaFlushPage[i]: access i is the page write-out of BufferPoolManager.FlushPage (DiskManager.WritePage
	// reading the page bytes, called from FlushPage)
	viaFlushPage [2]bool
}

// parseRaceLog splits the detector's log into reports and extracts, for each of the two accesses, the
// innermost frame that belongs to the SamehadaDB library (not the shims).
func parseRaceLog(text string) []raceReport {
	var out []raceReport
	for _, blk := range strings.Split(text, "==================") {
		if !strings.Contains(blk, "WARNING: DATA RACE") {
			continue
		}
		lines := strings.Split(blk, "\n")
		var sites [][2]string
		var tops []string // innermost frame of each access
		var flush []bool  // the access' stack contains BufferPoolManager.FlushPage below a WritePage frame
		inAccess := false
		for i := 0; i < len(lines); i++ {
			l := lines[i]
			if strings.HasPrefix(l, "Write at") || strings.HasPrefix(l, "Read at") || strings.HasPrefix(l, "Previous write at") || strings.HasPrefix(l, "Previous read at") ||
				strings.HasPrefix(l, "Atomic") || strings.HasPrefix(l, "Previous atomic") {
				inAccess = true
				sites = append(sites, [2]string{"", ""})
				tops = append(tops, "")
				flush = append(flush, false)
				continue
			}
			if strings.HasPrefix(l, "Goroutine") || strings.HasPrefix(l, "Mutex") {
				inAccess = false
			}
			if inAccess && len(sites) > 0 && strings.Contains(l, "storage/buffer.(*BufferPoolManager).FlushPage(") && strings.HasSuffix(sites[len(sites)-1][0], "DiskManagerImpl).WritePage") {
				flush[len(flush)-1] = true
			}
			if !inAccess || len(sites) == 0 || sites[len(sites)-1][0] != "" {
				continue
			}
			fn := strings.TrimSpace(l)
			if tops[len(tops)-1] == "" && fn != "" && !strings.HasPrefix(fn, "/") {
				tops[len(tops)-1] = fn
			}
			if strings.HasPrefix(fn, "github.com/ryogrid/SamehadaDB/lib/") && !strings.Contains(fn, "verifshim") && i+1 < len(lines) {
				if j := strings.LastIndex(fn, "("); j > 0 {
					fn = fn[:j]
				}
				file := strings.TrimSpace(lines[i+1])
				if k := strings.Index(file, "/lib/"); k >= 0 {
					file = file[k+5:]
				}
				if k := strings.Index(file, ":"); k >= 0 {
					file = file[:k]
				}
				sites[len(sites)-1] = [2]string{strings.TrimPrefix(fn, "github.com/ryogrid/SamehadaDB/lib/"), file}
			}
		}
		if len(sites) >= 2 {
			r := raceReport{a: sites[0][0], fa: sites[0][1], b: sites[1][0], fb: sites[1][1], text: blk}
			r.viaFlushPage = [2]bool{flush[0], flush[1]}
			// an access without a library frame: an atomic operation of library code that was inlined into
			// its caller (the other access decides the scope) - anything else is the harness' own access
			// ... and when library frames are left, the innermost one may be a caller of the function that really
			// contains the atomic operation (Catalog.CreateTable inlined into the planner): the site of an atomic
			// access is never used to decide the scope
			if strings.HasPrefix(tops[0], "sync/atomic.") {
				if r.a == "" {
					r.a = "(inlined atomic)"
				} else {
					r.a, r.fa = "(atomic in "+r.a+")", ""
				}
			}
			if strings.HasPrefix(tops[1], "sync/atomic.") {
				if r.b == "" {
					r.b = "(inlined atomic)"
				} else {
					r.b, r.fb = "(atomic in "+r.b+")", ""
				}
			}
			// FlushPage writes a page out without taking its latch (NewTableHeap calls it while holding the write
			// latch, so it cannot): every writer of page bytes that holds the latch races with it. One cause, one
			// signature - whatever the writer is
			if r.viaFlushPage[0] && !r.viaFlushPage[1] && strings.HasPrefix(r.fb, "storage/") {
				r.a, r.fa, r.b = "buffer.(*BufferPoolManager).FlushPage[page-bytes-read-without-the-page-latch]", "storage/buffer/buffer_pool_manager.go", "(a-page-writer)"
			} else if r.viaFlushPage[1] && !r.viaFlushPage[0] && strings.HasPrefix(r.fa, "storage/") {
				r.b, r.fb, r.a = "buffer.(*BufferPoolManager).FlushPage[page-bytes-read-without-the-page-latch]", "storage/buffer/buffer_pool_manager.go", "(a-page-writer)"
			}
			if r.a > r.b {
				r.a, r.b, r.fa, r.fb = r.b, r.a, r.fb, r.fa
			}
			out = append(out, r)
		}
	}
	return out
}

// inScope: memory of the storage engine's data path (property anchors): heap, pool, pages, log manager,
// lock manager, skip list and its pages, index wrappers, catalog maps, latches.
func c19InScope(file string) bool {
	switch {
	case file == "":
		return false
	case strings.HasPrefix(file, "storage/"), strings.HasPrefix(file, "recovery/"), strings.HasPrefix(file, "container/"):
		return true
	case file == "catalog/table_catalog.go", file == "catalog/table_metadata.go", file == "common/rwlatch.go":
		return true
	}
	return false
}

func c19Run(c *core.Ctx) {
	res := c.Res
	if !vsched.RaceBuild {
		res.Nondet = append(res.Nondet, "C19 must run in the -race build (bin/check builds it)")
		return
	}
	scs := c19Scenarios(c.Thorough())
	bound := 1
	if c.Thorough() {
		bound = 2
	}
	res.Bound["scenarios"] = len(scs)
	res.Bound["preemption_bound"] = bound
	before := vsched.RaceErrors()
	seen := map[string]bool{}
	var outOfScope []string
	logOff := map[string]int{}
	// harvest reads what the detector appended to its log since the last call and files every new report
	// under the schedule that produced it
	harvest := func(scName string, choices []int) {
		logs, _ := filepath.Glob(os.Getenv("VERIF_RACE_LOG") + "*")
		for _, lf := range logs {
			b, _ := os.ReadFile(lf)
			if len(b) <= logOff[lf] {
				continue
			}
			text := string(b[logOff[lf]:])
			// keep an unfinished report for the next round
			if i := strings.LastIndex(text, "=================="); i >= 0 {
				text = text[:i+18]
			}
			logOff[lf] += len(text)
			for _, r := range parseRaceLog(text) {
				sig := "race/" + r.a + "<>" + r.b
				if seen[sig] {
					continue
				}
				seen[sig] = true
				// (an access whose library frame was inlined away - e.g. sync/atomic called directly from a small
				// function - has no site of its own: the other access decides)
				okA := c19InScope(r.fa) || strings.HasSuffix(r.a, "atomic)") || strings.HasPrefix(r.a, "(atomic in ")
				okB := c19InScope(r.fb) || strings.HasSuffix(r.b, "atomic)") || strings.HasPrefix(r.b, "(atomic in ")
				if okA && okB && (r.fa != "" || r.fb != "") {
					res.Outcome("data-path-race:" + r.a + "<>" + r.b)
					res.Violate(&core.Violation{Property: "C19", Signature: strings.ReplaceAll(sig, " ", ""),
						Detail: fmt.Sprintf("unsynchronised accesses in %s (%s) and %s (%s)\nscenario %s, schedule %v\n%s", r.a, r.fa, r.b, r.fb, scName, choices, firstN(r.text, 1800)),
						Replay: map[string]any{"sites": []string{r.a, r.b}, "scenario": scName, "choices": choices, "thorough": c.Thorough()}})
				} else {
					outOfScope = append(outOfScope, fmt.Sprintf("%s (%s) <> %s (%s)", r.a, r.fa, r.b, r.fb))
					if d := os.Getenv("VERIF_C19_DUMP"); d != "" {
						f, _ := os.OpenFile(d, os.O_APPEND|os.O_CREATE|os.O_WRONLY, 0o644)
						fmt.Fprintf(f, "#### %s <> %s   scenario %s\n%s\n", r.a, r.b, scName, firstN(r.text, 4000))
						f.Close()
					}
				}
			}
		}
	}
	for _, sc := range scs {
		if c.Expired() {
			break
		}
		sc := sc
		sc.Bound = bound
		if sc.FreeBound == 0 && strings.HasPrefix(sc.Name, "c12/") {
			sc.FreeBound = 2
		}
		// the functional oracle of the scenario is not C19's business: only races are
		inner := sc.Setup
		last := vsched.RaceErrors()
		sc.Setup = func() *core.Harness {
			h := inner()
			h.Check = func(x *core.ExecInfo) (*core.Violation, string) {
				if n := vsched.RaceErrors(); n != last {
					last = n
					harvest(sc.Name, x.Choices)
					return nil, "race-reported"
				}
				return nil, "no-race"
			}
			return h
		}
		core.ExploreSched(c, sc)
	}
	harvest("(end of run)", nil)
	res.Extra["race_reports_raw"] = float64(vsched.RaceErrors() - before)
	sort.Strings(outOfScope)
	if len(outOfScope) > 0 {
		res.Extra["races_outside_the_data_path_shard"+fmt.Sprint(c.Shard)] = outOfScope
	}
	if len(seen) == 0 {
		res.Outcome("no-race-reported")
	}
}

// c19Scenarios lists the scenarios of a tier (shared by the run and the replay).
func c19Scenarios(thorough bool) []*core.Scenario {
	var scs []*core.Scenario
	for _, s := range sqlScenarios("C04", thorough) {
		scs = append(scs, s.build("C19"))
	}
	for _, s := range sqlScenarios("C05", thorough) {
		scs = append(scs, s.build("C19"))
	}
	for _, s := range sqlScenarios("C19", thorough) {
		scs = append(scs, s.build("C19"))
	}
	scs = append(scs, c19BPMScenarios()...)
	// concurrently committing writers, also on a 10-frame pool (eviction of dirty pages next to commits)
	scs = append(scs, c08ConcScenarios(thorough)...)
	for _, s := range c17Scenarios(false) {
		if strings.HasPrefix(s.Name, "skip:") || strings.Contains(s.Name, "delete||delete") || thorough {
			scs = append(scs, s.build(1))
		}
	}
	scs = append(scs, c19Maintenance())
	// the request-manager scenarios are the largest (tens of thousands of schedules each): they come last, so
	// that a run that reaches its time budget has covered everything else
	for _, s := range c12Scenarios(false) {
		if strings.HasPrefix(s.Name, "flood/") || s.Bound > 0 {
			continue // C12's own deadlock hunts (capacity abstraction, 102 clients, 2 preemptions) are not race scenarios
		}
		scs = append(scs, s.build(1))
	}
	return scs
}

func init() {
	core.Register(&core.Driver{
		Prop: "C19",
		Budget: func(tier string) time.Duration {
			if tier == "thorough" {
				return 40 * time.Minute
			}
			return 4 * time.Minute
		},
		Env: func(dir string, shard int) []string {
			lp := filepath.Join(dir, fmt.Sprintf("race-%d", shard))
			return []string{"GORACE=halt_on_error=0 history_size=3 log_path=" + lp, "VERIF_RACE_LOG=" + lp}
		},
		Assume: []string{
			"the Go race detector (happens-before based) is the oracle of each explored schedule; scheduler hand-offs are hidden from it (runtime.RaceDisable/Enable), the program's own mutex operations are not",
			"a report counts for C19 iff both access sites lie in the data path (storage/, recovery/, container/, catalog maps, rwlatch); other reports (debug flags, thread-lifecycle booleans, statistics) are listed in the evidence as out of scope",
			"a finding is identified by the unordered pair of functions (no line numbers)",
			"harness bodies: the concurrent scenarios of C04, C05, C12, C17 (skip list) and DML next to a forced checkpoint and a statistics pass on a 10-frame pool; preemption bound 1 (thorough 2)",
		},
		Run: c19Run,
		Replay: func(raw json.RawMessage) (string, bool) {
			var rp struct {
				Sites    []string `json:"sites"`
				Scenario string   `json:"scenario"`
				Choices  []int    `json:"choices"`
				Thorough bool     `json:"thorough"`
			}
			json.Unmarshal(raw, &rp)
			if !vsched.RaceBuild {
				return "C19 replays need the -race build: bin/replay uses it automatically", false
			}
			for _, sc := range c19Scenarios(rp.Thorough) {
				if sc.Name != rp.Scenario {
					continue
				}
				if strings.HasPrefix(sc.Name, "c12/") {
					sc.FreeBound = 2
				}
				before := vsched.RaceErrors()
				x, _, _, div := core.RunSchedule(sc, rp.Choices)
				n := vsched.RaceErrors() - before
				return fmt.Sprintf("scenario %s, schedule of %d points %s: the race detector reported %d race(s) (expected sites %v; the reports are on stderr)", sc.Name, len(x.Trace), div, n, rp.Sites), n > 0
			}
			return "scenario not found: " + rp.Scenario, false
		},
	})
}
