package props

// C15 — slotted pages never corrupt or lose a stored row.
// Engine A on a raw access.TablePage over a private 4096-byte buffer (recovery-phase transaction =>
// no locking; logging off), every operation sequence up to a depth, merged on the raw header + slot
// array + per-slot content version. Oracle: a slot -> (bytes, marked) map, compared with the raw
// page bytes after EVERY operation.

import (
	"bytes"
	"encoding/binary"
	"encoding/json"
	"fmt"
	"sort"
	"time"

	"github.com/ryogrid/SamehadaDB/lib/common"
	"github.com/ryogrid/SamehadaDB/lib/recovery"
	"github.com/ryogrid/SamehadaDB/lib/storage/access"
	"github.com/ryogrid/SamehadaDB/lib/storage/disk"
	"github.com/ryogrid/SamehadaDB/lib/storage/index/index_constants"
	"github.com/ryogrid/SamehadaDB/lib/storage/page"
	"github.com/ryogrid/SamehadaDB/lib/storage/table/column"
	"github.com/ryogrid/SamehadaDB/lib/storage/table/schema"
	"github.com/ryogrid/SamehadaDB/lib/storage/tuple"
	"github.com/ryogrid/SamehadaDB/lib/types"

	"verif/core"
)

type c15Slot struct {
	live   bool
	marked bool
	data   []byte
	ver    int
}

type c15Inst struct {
	// sc != nil: "schema mode" - rows are tuples of (a INT, s VARCHAR, t VARCHAR) and the alphabet has the
	// partial-column update every SQL UPDATE ... SET issues (non-SET columns arrive as NULL dummies and
	// UpdateTuple merges them with the stored row)
	sc       *schema.Schema
	buf      *[common.PageSize]byte
	tp       *access.TablePage
	txn      *access.Transaction
	slots    []c15Slot
	maxSlots int
	sizes    []int
	last     string
}

func (in *c15Inst) LastOutcome() string { return in.last }

var c15Log *recovery.LogManager

const c15PageID = 7
const c15DelMask = uint32(1) << 31

func newC15Schema(maxSlots int, sizes []int) *c15Inst {
	in := newC15(maxSlots, sizes)
	in.sc = schema.NewSchema([]*column.Column{
		column.NewColumn("a", types.Integer, false, index_constants.IndexKindInvalid, types.PageID(-1), nil),
		column.NewColumn("s", types.Varchar, false, index_constants.IndexKindInvalid, types.PageID(-1), nil),
		column.NewColumn("t", types.Varchar, false, index_constants.IndexKindInvalid, types.PageID(-1), nil)})
	return in
}

func newC15(maxSlots int, sizes []int) *c15Inst {
	if c15Log == nil {
		dm := disk.NewVirtualDiskManagerImpl("c15.db")
		c15Log = recovery.NewLogManager(&dm) // logging stays disabled
	}
	in := &c15Inst{maxSlots: maxSlots, sizes: sizes}
	in.buf = new([common.PageSize]byte)
	pg := page.NewEmpty(types.PageID(c15PageID), in.buf)
	in.tp = access.CastPageAsTablePage(pg)
	in.txn = access.NewTransaction(1)
	in.txn.SetIsRecoveryPhase(true)
	in.tp.Init(types.PageID(c15PageID), types.PageID(3), c15Log, nil, in.txn, false)
	return in
}

func (in *c15Inst) Close() {}

func (in *c15Inst) used() int {
	n := 0
	for _, s := range in.slots {
		if s.live {
			n += len(s.data)
		}
	}
	return n
}

// free is the space not occupied: page - header - slot array - rows.
func (in *c15Inst) free() int { return common.PageSize - 24 - 8*len(in.slots) - in.used() }

func (in *c15Inst) sizeChoices() []int {
	out := append([]int{}, in.sizes...)
	f := in.free()
	if f-8 > 0 {
		out = append(out, f-8) // exactly fills the page (with a new slot entry)
	}
	if f-8+1 > 0 {
		out = append(out, f-8+1) // one byte too big
	}
	sort.Ints(out)
	var u []int
	for i, s := range out {
		if i == 0 || s != out[i-1] {
			u = append(u, s)
		}
	}
	return u
}

func (in *c15Inst) Enabled() []string {
	var ops []string
	freeSlot := false
	for _, s := range in.slots {
		if !s.live {
			freeSlot = true
		}
	}
	if len(in.slots) < in.maxSlots || freeSlot {
		for _, sz := range in.sizeChoices() {
			ops = append(ops, fmt.Sprintf("Insert(%d)", sz))
		}
	}
	// the recovery flavour of the insert: redo of an INSERT / undo of an applied delete puts the row back
	// under the row id the log record names - an existing empty slot (needs no new directory entry: it fits
	// whenever the row bytes fit), the next slot, or a slot further on (the slots in between are created empty)
	if in.sc == nil {
		free, n := in.free(), len(in.slots)
		seenSz := map[int]bool{}
		for _, sz := range []int{in.sizes[0], free - 8, free, free + 1} {
			if sz <= 0 || seenSz[sz] {
				continue
			}
			seenSz[sz] = true
			for i, s := range in.slots {
				if !s.live {
					ops = append(ops, fmt.Sprintf("InsertAt(%d,%d)", i, sz))
				}
			}
			// a logged slot at or beyond the end of the directory can only have been handed out when no earlier
			// slot was free (the normal insert takes the first free slot): with a free slot around, such a
			// request is outside what redo/undo can ask for
			if freeSlot {
				continue
			}
			if n < in.maxSlots {
				ops = append(ops, fmt.Sprintf("InsertAt(%d,%d)", n, sz))
			}
			// a gap: only where the outcome is defined (enough room for the row and all new entries, or not
			// even room for the row and one entry)
			if n+1 < in.maxSlots && (free >= sz+16 || free < sz+8) {
				ops = append(ops, fmt.Sprintf("InsertAt(%d,%d)", n+1, sz))
			}
		}
	}
	for i, s := range in.slots {
		if !s.live {
			continue
		}
		if s.marked {
			ops = append(ops, fmt.Sprintf("ApplyDelete(%d)", i), fmt.Sprintf("RollbackDelete(%d)", i))
			// an update of a delete-marked row is refused by contract; exercise the refusal once
			ops = append(ops, fmt.Sprintf("Update(%d,%d,0)", i, len(s.data)))
			continue
		}
		ops = append(ops, fmt.Sprintf("MarkDelete(%d)", i), fmt.Sprintf("ApplyDelete(%d)", i))
		// update sizes: the fixed alphabet plus "grows to exactly the free space" and one more
		szs := append([]int{}, in.sizes...)
		szs = append(szs, len(s.data), len(s.data)+in.free(), len(s.data)+in.free()+1)
		sort.Ints(szs)
		for k, sz := range szs {
			if sz <= 0 || (k > 0 && sz == szs[k-1]) {
				continue
			}
			ops = append(ops, fmt.Sprintf("Update(%d,%d,0)", i, sz), fmt.Sprintf("Update(%d,%d,1)", i, sz))
			if in.sc != nil && sz >= in.c15Base() {
				ops = append(ops, fmt.Sprintf("UpdateP(%d,%d)", i, sz))
			}
		}
	}
	return ops
}

const c15T = "tttttttttttttttttttt" // the column a partial update leaves alone

// c15Base: size of a schema-mode row whose s column is empty.
func (in *c15Inst) c15Base() int {
	return int(tuple.NewTupleFromSchema([]types.Value{types.NewInteger(0), types.NewVarchar(""), types.NewVarchar(c15T)}, in.sc).Size())
}

func c15Str(slot, ver, n int) string {
	b := make([]byte, n)
	for j := range b {
		b[j] = 'a' + byte((slot*5+ver*3+j)%26)
	}
	return string(b)
}

// content returns the bytes of the row (slot, ver) of the given total size (schema mode: at least the base).
func (in *c15Inst) content(slot, ver, size int) []byte {
	if in.sc == nil {
		return c15Content(slot, ver, size)
	}
	n := size - in.c15Base()
	if n < 0 {
		n = 0
	}
	t := tuple.NewTupleFromSchema([]types.Value{types.NewInteger(int32(slot*10 + ver)), types.NewVarchar(c15Str(slot, ver, n)), types.NewVarchar(c15T)}, in.sc)
	return append([]byte{}, t.Data()[:t.Size()]...)
}

func c15Content(slot, ver, size int) []byte {
	b := make([]byte, size)
	seed := byte(slot*41 + ver*13 + 1)
	for j := range b {
		b[j] = seed + byte(j*7) + byte(j>>8)
	}
	return b
}

func (in *c15Inst) Key() string {
	n := 24 + 8*len(in.slots)
	k := make([]byte, 0, n+len(in.slots))
	k = append(k, in.buf[:n]...)
	for _, s := range in.slots {
		k = append(k, byte(s.ver))
	}
	return string(k)
}

func (in *c15Inst) Apply(op string) (viol *core.Violation) {
	var a, b, c int
	kind := ""
	if n, _ := fmt.Sscanf(op, "InsertAt(%d,%d)", &a, &b); n == 2 {
		kind = "InsertAt"
	} else if n, _ := fmt.Sscanf(op, "Insert(%d)", &a); n == 1 {
		kind = "Insert"
	} else if n, _ := fmt.Sscanf(op, "Update(%d,%d,%d)", &a, &b, &c); n == 3 {
		kind = "Update"
	} else if n, _ := fmt.Sscanf(op, "UpdateP(%d,%d)", &a, &b); n == 2 {
		kind = "UpdateP"
	} else if n, _ := fmt.Sscanf(op, "MarkDelete(%d)", &a); n == 1 {
		kind = "MarkDelete"
	} else if n, _ := fmt.Sscanf(op, "ApplyDelete(%d)", &a); n == 1 {
		kind = "ApplyDelete"
	} else if n, _ := fmt.Sscanf(op, "RollbackDelete(%d)", &a); n == 1 {
		kind = "RollbackDelete"
	} else {
		panic("bad op " + op)
	}
	bad := func(clause, detail string) *core.Violation {
		return &core.Violation{Property: "C15", Signature: "page/" + clause + "/" + kind, Detail: op + ": " + detail}
	}
	defer func() {
		if p := recover(); p != nil {
			viol = bad("panic", fmt.Sprint(p))
		}
	}()
	rid := &page.RID{PageID: c15PageID, SlotNum: uint32(a)}
	in.last = "done"
	switch kind {
	case "Insert":
		size := a
		// expected slot: first free one, else a new one
		slot := len(in.slots)
		for i, s := range in.slots {
			if !s.live {
				slot = i
				break
			}
		}
		ver := 0
		if slot < len(in.slots) {
			ver = (in.slots[slot].ver + 1) % 3
		}
		data := in.content(slot, ver, size)
		size = len(data)
		tpl := tuple.NewTuple(nil, uint32(size), append([]byte{}, data...))
		free := in.free()
		got, err := in.tp.InsertTuple(tpl, c15Log, nil, in.txn)
		mustAccept := free >= size+8
		mustReject := free < size || (slot == len(in.slots) && free < size+8)
		if err == nil {
			if mustReject {
				return bad("accepted-without-space", fmt.Sprintf("free=%d size=%d", free, size))
			}
			if int(got.SlotNum) != slot || got.PageID != c15PageID {
				return bad("rid", fmt.Sprintf("returned rid %v, expected slot %d", *got, slot))
			}
			if slot == len(in.slots) {
				in.slots = append(in.slots, c15Slot{})
			}
			in.slots[slot] = c15Slot{live: true, data: data, ver: ver}
			in.last = "stored"
			if slot < len(in.slots)-1 {
				in.last = "stored-in-reused-slot"
			}
		} else {
			in.last = "refused"
		}
		if err != nil && mustAccept {
			return bad("free-space", fmt.Sprintf("insert of %d bytes refused (%v) although %d bytes are not occupied", size, err, free))
		}
	case "InsertAt":
		slot, size := a, b
		n := len(in.slots)
		ver := 0
		if slot < n {
			ver = (in.slots[slot].ver + 1) % 3
		}
		data := in.content(slot, ver, size)
		size = len(data)
		tpl := tuple.NewTuple(&page.RID{PageID: c15PageID, SlotNum: uint32(slot)}, uint32(size), append([]byte{}, data...))
		free := in.free()
		need := size // an existing empty slot: the row bytes must fit
		if slot >= n {
			need = size + 8*(slot+1-n)
		}
		got, err := in.tp.InsertTuple(tpl, c15Log, nil, in.txn)
		switch {
		case err == nil && free < need:
			return bad("accepted-without-space", fmt.Sprintf("free=%d, the row and its new directory entries need %d", free, need))
		case err != nil && free >= need:
			return bad("free-space", fmt.Sprintf("re-insert of %d bytes under slot %d refused (%v) although %d bytes are not occupied and %d are needed", size, slot, err, free, need))
		case err == nil:
			if int(got.SlotNum) != slot || got.PageID != c15PageID {
				return bad("rid", fmt.Sprintf("the row was put under rid %v, the log record names slot %d", *got, slot))
			}
			for len(in.slots) <= slot {
				in.slots = append(in.slots, c15Slot{})
			}
			in.slots[slot] = c15Slot{live: true, data: data, ver: ver}
			in.last = "stored-under-logged-rid"
			if slot < n && free < size+8 {
				in.last = "stored-under-logged-rid-without-room-for-an-entry"
			}
		default:
			in.last = "refused"
		}
	case "Update", "UpdateP":
		s := &in.slots[a]
		size := b
		ver := (s.ver + 1) % 3
		data := in.content(a, ver, size)
		size = len(data)
		newT := tuple.NewTuple(nil, uint32(size), append([]byte{}, data...))
		oldT := new(tuple.Tuple)
		free := in.free()
		var ok bool
		var err error
		if kind == "UpdateP" {
			// partial update of column s: the stored a and t stay, the caller passes NULL dummies for them
			oldA := tuple.NewTuple(nil, uint32(len(s.data)), append([]byte{}, s.data...)).GetValue(in.sc, 0)
			str := c15Str(a, ver, max(size-in.c15Base(), 0))
			merged := tuple.NewTupleFromSchema([]types.Value{oldA, types.NewVarchar(str), types.NewVarchar(c15T)}, in.sc)
			data = append([]byte{}, merged.Data()[:merged.Size()]...)
			size = len(data)
			partial := tuple.NewTupleFromSchema([]types.Value{types.NewNull(), types.NewVarchar(str), types.NewNull()}, in.sc)
			ok, err, _ = in.tp.UpdateTuple(partial, []int{1}, in.sc, oldT, rid, in.txn, nil, c15Log, false)
		} else {
			ok, err, _ = in.tp.UpdateTuple(newT, nil, nil, oldT, rid, in.txn, nil, c15Log, c == 1)
		}
		want := true
		if s.marked {
			want = false
		} else if free+len(s.data) < size {
			want = false
		} else if len(s.data) > size && c == 0 {
			want = false // shrinking is refused outside rollback (space is kept for a possible undo)
		}
		if ok != want {
			return bad("update-decision", fmt.Sprintf("updated=%v err=%v, expected %v (free=%d old=%d new=%d marked=%v)", ok, err, want, free, len(s.data), size, s.marked))
		}
		in.last = "refused"
		if ok {
			in.last = "in-place-same"
			if size > len(s.data) {
				in.last = "grown"
			} else if size < len(s.data) {
				in.last = "shrunk"
			}
			if !bytes.Equal(oldT.Data(), s.data) {
				return bad("old-image", "the old row image handed back for undo differs from what was stored")
			}
			s.data, s.ver = data, ver
		}
	case "MarkDelete":
		s := &in.slots[a]
		ok, tpl := in.tp.MarkDelete(rid, in.txn, nil, c15Log)
		if !ok {
			return bad("mark-refused", "MarkDelete of a live row refused")
		}
		if tpl == nil || !bytes.Equal(tpl.Data()[:tpl.Size()], s.data) {
			return bad("old-image", "row image returned by MarkDelete differs from what was stored")
		}
		s.marked = true
	case "ApplyDelete":
		in.tp.ApplyDelete(rid, in.txn, c15Log)
		in.slots[a] = c15Slot{ver: in.slots[a].ver}
	case "RollbackDelete":
		in.tp.RollbackDelete(rid, in.txn, c15Log)
		in.slots[a].marked = false
	}
	return in.invariants(kind)
}

func u32(b []byte) uint32 { return binary.LittleEndian.Uint32(b) }

// invariants compares the raw page bytes with the model.
func (in *c15Inst) invariants(kind string) *core.Violation {
	bad := func(clause, detail string) *core.Violation {
		return &core.Violation{Property: "C15", Signature: "page/" + clause + "/" + kind, Detail: detail}
	}
	d := in.buf[:]
	if u32(d[0:]) != c15PageID || int32(u32(d[8:])) != 3 || int32(u32(d[12:])) != -1 {
		return bad("header", fmt.Sprintf("page id / prev / next changed: %d %d %d", u32(d[0:]), int32(u32(d[8:])), int32(u32(d[12:]))))
	}
	fsp, cnt := int(u32(d[16:])), int(u32(d[20:]))
	if cnt != len(in.slots) {
		return bad("slot-count", fmt.Sprintf("tuple count %d, model %d", cnt, len(in.slots)))
	}
	if fsp != common.PageSize-in.used() {
		return bad("free-space-pointer", fmt.Sprintf("free space pointer %d, expected %d", fsp, common.PageSize-in.used()))
	}
	if int(in.tp.GetFreeSpacePointer()) != fsp || int(in.tp.GetTupleCount()) != cnt {
		return bad("getters", "GetFreeSpacePointer/GetTupleCount disagree with the page bytes")
	}
	type span struct{ lo, hi, slot int }
	var spans []span
	for i, s := range in.slots {
		off, sz := int(u32(d[24+8*i:])), u32(d[28+8*i:])
		if !s.live {
			if off != 0 || sz != 0 {
				return bad("empty-slot", fmt.Sprintf("slot %d should be empty, has offset %d size %#x", i, off, sz))
			}
			continue
		}
		wantSz := uint32(len(s.data))
		if s.marked {
			wantSz |= c15DelMask
		}
		if sz != wantSz {
			return bad("slot-size", fmt.Sprintf("slot %d size field %#x, expected %#x", i, sz, wantSz))
		}
		if off < fsp || off+len(s.data) > common.PageSize || off < 24+8*cnt {
			return bad("row-bounds", fmt.Sprintf("slot %d row [%d,%d) outside [%d,4096) or over the slot array", i, off, off+len(s.data), fsp))
		}
		if !bytes.Equal(d[off:off+len(s.data)], s.data) {
			return bad("row-bytes", fmt.Sprintf("slot %d: stored bytes differ from what was last written (another operation changed this row)", i))
		}
		spans = append(spans, span{off, off + len(s.data), i})
	}
	sort.Slice(spans, func(i, j int) bool { return spans[i].lo < spans[j].lo })
	for i := 1; i < len(spans); i++ {
		if spans[i].lo < spans[i-1].hi {
			return bad("overlap", fmt.Sprintf("rows of slots %d and %d overlap", spans[i-1].slot, spans[i].slot))
		}
	}
	if fsp < 24+8*cnt {
		return bad("overlap-header", "rows overlap the slot array")
	}
	// read path
	for i, s := range in.slots {
		rid := &page.RID{PageID: c15PageID, SlotNum: uint32(i)}
		t, err := in.tp.GetTuple(rid, c15Log, nil, in.txn)
		if s.live && !s.marked {
			if err != nil || t == nil || !bytes.Equal(t.Data()[:t.Size()], s.data) {
				return bad("get-tuple", fmt.Sprintf("GetTuple(slot %d) err=%v does not return the stored row", i, err))
			}
		} else if err == nil {
			return bad("get-tuple-deleted", fmt.Sprintf("GetTuple(slot %d) returns a row for a deleted/marked slot", i))
		}
	}
	return nil
}

func c15Cfg(thorough bool) (int, []int, int) {
	if thorough {
		return 4, []int{1, 7, 8, 100, 1300, 2000}, 7
	}
	return 4, []int{1, 8, 100, 1300}, 6
}

func init() {
	core.Register(&core.Driver{
		Prop: "C15",
		Budget: func(tier string) time.Duration {
			if tier == "thorough" {
				return 20 * time.Minute
			}
			return 300 * time.Second
		},
		Assume: []string{
			"A2 operations are issued as TableHeap, TransactionManager.Abort and LogRecovery issue them: ApplyDelete on live or delete-marked slots, RollbackDelete on delete-marked slots, updates of delete-marked rows only to observe the refusal",
			"recovery-phase transaction (no lock manager), logging disabled",
			"InsertTuple may refuse an insert that would fit only because a free slot entry is reused (it always reserves a new slot entry); it must accept whenever free >= size+8 and must refuse when the row cannot fit",
		},
		Run: func(c *core.Ctx) {
			ms, sizes, depth := c15Cfg(c.Thorough())
			c.Res.Bound["c15.max_slots"] = ms
			c.Res.Bound["c15.sizes"] = fmt.Sprint(sizes, " + exactly-fills-page + one-too-big + grows-to-free-space(+1)")
			core.BFS(c, core.SeqConfig{Name: "c15page", Fresh: func() core.Instance { return newC15(ms, sizes) }, MaxDepth: depth, SplitDepth: 2})
			// schema mode: rows of (INT, VARCHAR, VARCHAR), full and partial-column updates
			ssz := []int{40, 48, 140, 1300}
			c.Res.Bound["c15.schema_mode_sizes"] = fmt.Sprint(ssz, " + the same page-filling sizes; partial update of the first VARCHAR column")
			core.BFS(c, core.SeqConfig{Name: "c15schema", Params: "schema", Fresh: func() core.Instance { return newC15Schema(3, ssz) }, MaxDepth: depth - 1, SplitDepth: 2})
		},
		Replay: func(raw json.RawMessage) (string, bool) {
			var rp struct {
				History []string `json:"history"`
				Params  string   `json:"params"`
			}
			json.Unmarshal(raw, &rp)
			if rp.Params == "schema" {
				return core.ReplayHistory(func() core.Instance { return newC15Schema(3, []int{40, 48, 140, 1300}) }, rp.History)
			}
			return core.ReplayHistory(func() core.Instance { return newC15(5, []int{1, 7, 8, 100, 1300, 2000}) }, rp.History)
		},
	})
}
