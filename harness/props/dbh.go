package props

// DB-level helper shared by the SQL-level drivers: real SamehadaDB on tmpfs files with background
// threads off (hook H2), statements with caller-owned transactions (exactly the sequence
// ExecuteSQLRetValues performs), panics and latch leaks turned into results.

import (
	"fmt"
	"hash/fnv"
	"os"
	"path/filepath"
	"runtime"
	"runtime/debug"
	"sort"
	"strings"
	"sync/atomic"
	"time"

	"github.com/ryogrid/SamehadaDB/lib/catalog"
	"github.com/ryogrid/SamehadaDB/lib/common"
	"github.com/ryogrid/SamehadaDB/lib/concurrency"
	"github.com/ryogrid/SamehadaDB/lib/execution/executors"
	"github.com/ryogrid/SamehadaDB/lib/execution/plans"
	"github.com/ryogrid/SamehadaDB/lib/parser"
	"github.com/ryogrid/SamehadaDB/lib/planner"
	"github.com/ryogrid/SamehadaDB/lib/planner/optimizer"
	"github.com/ryogrid/SamehadaDB/lib/samehada"
	"github.com/ryogrid/SamehadaDB/lib/samehada/samehada_util"
	"github.com/ryogrid/SamehadaDB/lib/storage/access"
	"github.com/ryogrid/SamehadaDB/lib/storage/buffer"
	"github.com/ryogrid/SamehadaDB/lib/storage/index/index_constants"
	"github.com/ryogrid/SamehadaDB/lib/storage/table/column"
	"github.com/ryogrid/SamehadaDB/lib/storage/table/schema"
	"github.com/ryogrid/SamehadaDB/lib/types"
	"github.com/ryogrid/SamehadaDB/lib/verifshim/vrand"
	"github.com/ryogrid/SamehadaDB/lib/verifshim/vsched"

	"verif/core"
)

func init() {
	common.TempSuppressOnMemStorage = true // real files (tmpfs), as the repository's persistence tests do
	concurrency.VerifNoBackground = true   // hook H2
	optimizer.VerifPlanChooser = planChooser // hook H3
}

// ---- hook H3: the optimizer's tie-breaks between equal-cost plans are an environment answer -----------

// PlanChoice is one decision point of the optimizer: the tied cost-minimal candidates (canonical order)
// and the one taken. Decision points are identified by their CONTENT (site + candidates), not by their
// position in the sequence: the optimizer visits table pairs in map iteration order.
type PlanChoice struct {
	Key   string
	Site  string
	Tied  []string
	Taken int
}

// PlanChoices maps decision-point keys to the index to take (absent = 0, the canonically first).
type PlanChoices map[string]int

var (
	planChoices PlanChoices
	PlanTrace   []PlanChoice // decision points of the statement being planned
)

func planKey(site string, tied []string) string {
	h := fnv.New32a()
	h.Write([]byte(site))
	for _, t := range tied {
		h.Write([]byte{0})
		h.Write([]byte(t))
	}
	return fmt.Sprintf("%s~%08x", strings.SplitN(site, ":", 2)[0], h.Sum32())
}

func planChooser(site string, tied []string) int {
	if vsched.Active() {
		// concurrently planned statements: always the canonically first candidate, nothing recorded
		return 0
	}
	key := planKey(site, tied)
	idx := planChoices[key]
	if idx >= len(tied) {
		idx = 0
	}
	PlanTrace = append(PlanTrace, PlanChoice{Key: key, Site: site, Tied: tied, Taken: idx})
	return idx
}

// SetPlanChoices fixes the optimizer's tie-breaks for the next statement(s).
func SetPlanChoices(c PlanChoices) {
	planChoices = c
	PlanTrace = nil
}

// String renders choices canonically ("" = all defaults); ParsePlanChoices reads it back.
func (c PlanChoices) String() string {
	var ks []string
	for k, v := range c {
		if v != 0 {
			ks = append(ks, fmt.Sprintf("%s=%d", k, v))
		}
	}
	sort.Strings(ks)
	return strings.Join(ks, ",")
}

func ParsePlanChoices(s string) PlanChoices {
	c := PlanChoices{}
	for _, kv := range strings.Split(s, ",") {
		if i := strings.LastIndexByte(kv, '='); i > 0 {
			var n int
			fmt.Sscan(kv[i+1:], &n)
			c[kv[:i]] = n
		}
	}
	return c
}

// PlanAlternatives returns the choice maps that deviate from base at one decision point of the trace
// that base does not fix yet.
func PlanAlternatives(base PlanChoices, trace []PlanChoice) []PlanChoices {
	var out []PlanChoices
	seen := map[string]bool{}
	for _, p := range trace {
		if seen[p.Key] || len(p.Tied) < 2 {
			continue
		}
		seen[p.Key] = true
		if _, fixed := base[p.Key]; fixed {
			continue
		}
		for alt := 0; alt < len(p.Tied); alt++ {
			nc := PlanChoices{}
			for k, v := range base {
				nc[k] = v
			}
			nc[p.Key] = alt // alt == Taken too: the point is now fixed for the subtree
			if alt != p.Taken {
				out = append(out, nc)
			}
		}
	}
	return out
}

// openTimeout: NewSamehadaDB normally takes 0.5-3 ms.
var openTimeout = 20 * time.Second

type DB struct {
	Path  string // file name prefix: <Path>.db / <Path>.log
	MemKB int
	SDB   *samehada.SamehadaDB
	dir   string
}

var dbSeq int

// NewDir returns a fresh private tmpfs directory.
func NewDir(tag string) string {
	dbSeq++
	d := filepath.Join(core.Scratch(), fmt.Sprintf("%s-%d", tag, dbSeq))
	os.RemoveAll(d)
	os.MkdirAll(d, 0o755)
	return d
}

// Failure describes a call into the engine that did not return normally.
type Failure struct {
	Kind  string // panic | latch-leak
	Msg   string
	Where string
}

func (f *Failure) String() string { return f.Kind + ": " + f.Msg + " @ " + f.Where }

func guard(fn func()) (fail *Failure) {
	defer func() {
		if r := recover(); r != nil {
			st := string(debug.Stack())
			if os.Getenv("VERIF_STACK") != "" {
				fmt.Fprintf(os.Stderr, "PANIC %v\n%s\n", r, st)
			}
			kind := "panic"
			if _, ok := r.(vsched.LatchLeak); ok {
				kind = "latch-leak"
			}
			fail = &Failure{Kind: kind, Msg: firstLineOf(fmt.Sprint(r)), Where: libFrame(st)}
		}
	}()
	fn()
	return nil
}

// guardTimeout is guard with a hang detector: fn runs in its own goroutine; if it has not returned after
// d (orders of magnitude above its normal cost) the stacks are dumped to find where it spins and the
// goroutine is abandoned. The verdict is re-checked by the caller before it is reported.
func guardTimeout(d time.Duration, fn func()) (fail *Failure) {
	done := make(chan *Failure, 1)
	var gid atomic.Value
	go func() {
		gid.Store(curGoroutineLine())
		done <- guard(fn)
	}()
	select {
	case f := <-done:
		return f
	case <-time.After(d):
		buf := make([]byte, 1<<20)
		n := runtime.Stack(buf, true)
		where := "unknown"
		want, _ := gid.Load().(string)
		for _, g := range strings.Split(string(buf[:n]), "\n\n") {
			if want != "" && strings.HasPrefix(g, want) {
				where = libFrame(g)
			}
		}
		return &Failure{Kind: "hang", Msg: fmt.Sprintf("call did not return within %v", d), Where: where}
	}
}

func curGoroutineLine() string {
	buf := make([]byte, 64)
	n := runtime.Stack(buf, false)
	s := string(buf[:n])
	if i := strings.Index(s, " ["); i > 0 {
		return s[:i] + " ["
	}
	return ""
}

func firstLineOf(s string) string {
	if i := strings.IndexByte(s, '\n'); i >= 0 {
		s = s[:i]
	}
	if len(s) > 160 {
		s = s[:160]
	}
	return s
}

// libFrame extracts the innermost SamehadaDB function of a stack trace (without line numbers, so that
// signatures survive unrelated edits).
func libFrame(st string) string {
	var frames []string
	for _, l := range strings.Split(st, "\n") {
		l = strings.TrimSpace(l)
		if strings.HasPrefix(l, "github.com/ryogrid/SamehadaDB/lib/") && !strings.Contains(l, "verifshim") {
			f := strings.TrimPrefix(l, "github.com/ryogrid/SamehadaDB/lib/")
			if i := strings.LastIndex(f, "("); i > 0 {
				f = f[:i]
			}
			frames = append(frames, f)
			if len(frames) == 2 {
				break
			}
		}
	}
	return strings.Join(frames, "<")
}

// OpenDB creates or reopens the database at path (recovery runs if the files exist).
func OpenDB(path string, memKB int) (*DB, *Failure) {
	d := &DB{Path: path, MemKB: memKB}
	vrand.Reset()
	f := guardTimeout(openTimeout, func() { d.SDB = samehada.NewSamehadaDB(path, memKB) })
	vsched.DropPendingSpawns()
	if f != nil {
		return nil, f
	}
	return d, nil
}

// OpenDBKeepSpawns is OpenDB for scenarios that need the library's own goroutines (the RequestManager
// loop): they stay queued and are adopted by the next controlled execution.
func OpenDBKeepSpawns(path string, memKB int) (*DB, *Failure) {
	d := &DB{Path: path, MemKB: memKB}
	vrand.Reset()
	vsched.DropPendingSpawns()
	f := guard(func() { d.SDB = samehada.NewSamehadaDB(path, memKB) })
	if f != nil {
		return nil, f
	}
	return d, nil
}

func (d *DB) inst() *samehada.SamehadaInstance { return d.SDB.GetSamehadaInstance() }
func (d *DB) Cat() *catalog.Catalog            { return d.SDB.GetCatalogForTesting() }
func (d *DB) BPM() *buffer.BufferPoolManager   { return d.inst().GetBufferPoolManager() }
func (d *DB) TM() *access.TransactionManager   { return d.inst().GetTransactionManager() }

// Shutdown is the clean shutdown.
func (d *DB) Shutdown() *Failure { return guard(func() { d.SDB.Shutdown() }) }

// Kill closes the files without flushing anything (process death).
func (d *DB) Kill() {
	guard(func() { d.inst().CloseFilesForTesting() })
}

func (d *DB) Checkpoint() *Failure {
	return guard(func() { d.SDB.ForceCheckpointingForTestcase() })
}

// Rows is a statement result converted to Go values (int32, float32, string, nil).
type Rows [][]any

// StmtResult is the outcome of one statement.
type StmtResult struct {
	Rows    Rows
	Aborted bool   // the transaction was aborted by the engine (lock conflict etc.)
	Err     string // parse / plan error reported by the front end
	Fail    *Failure
	IsQuery bool
}

type Txn struct {
	db  *DB
	T   *access.Transaction
	End bool
}

func (d *DB) Begin() *Txn {
	return &Txn{db: d, T: d.TM().Begin(nil)}
}

// Exec runs one statement inside the transaction, exactly as ExecuteSQLRetValues does minus the
// begin/commit. If the engine marks the transaction aborted the caller must call Abort.
func (t *Txn) Exec(sql string) (res StmtResult) {
	PlanTrace = nil
	res.Fail = guard(func() {
		qi, err := parser.ProcessSQLStr(&sql)
		if err != nil {
			res.Err = "parse: " + err.Error()
			return
		}
		qi, err = optimizer.RewriteQueryInfo(t.db.Cat(), qi)
		if err != nil {
			res.Err = "rewrite: " + err.Error()
			return
		}
		err, plan := planner.NewSimplePlanner(t.db.Cat(), t.db.BPM()).MakePlan(qi, t.T)
		if err != nil {
			res.Err = "plan: " + err.Error()
			return
		}
		if plan == nil {
			if *qi.QueryType != parser.CreateTable {
				res.Err = "plan creation error"
			}
			return
		}
		if PlanWrap != nil {
			plan = PlanWrap(plan)
		}
		res.Rows, res.Aborted, res.IsQuery = t.runPlan(plan)
	})
	return res
}

// PlanWrap (optional) puts a plan node on top of the plan of the next statements (C14: a LIMIT node, which the
// SQL front end parses but does not plan - the parent stops pulling before its child is exhausted).
var PlanWrap func(plans.Plan) plans.Plan

func (t *Txn) runPlan(plan plans.Plan) (Rows, bool, bool) {
	ctx := executors.NewExecutorContext(t.db.Cat(), t.db.BPM(), t.T)
	result := (&executors.ExecutionEngine{}).Execute(plan, ctx)
	if t.T.GetState() == access.ABORTED {
		return nil, true, false
	}
	out := plan.OutputSchema()
	if out == nil {
		return nil, false, false
	}
	return convRows(samehada_util.ConvTupleListToValues(out, result)), false, true
}

// PlanRunBudget bounds the planning runs of one PlanVariants call.
var PlanRunBudget = 48

// PlanVariants plans sql under every combination of the optimizer's tie-breaks (hook H3) and returns one
// choice prefix per DISTINCT plan, with the canonical plan strings. Planning has no side effects; the
// throw-away transaction is committed empty.
func (d *DB) PlanVariants(sql string) (choices []PlanChoices, planStrs []string, fail *Failure) {
	seen := map[string]bool{}
	tried := map[string]bool{}
	work := []PlanChoices{{}}
	runs := 0
	// breadth first: the canonical plan, then every single tie-break deviation from it, then pairs, ...
	// up to PlanRunBudget planning runs (the number of choice vectors is a product over decision points,
	// most of which do not change the final plan)
	for len(work) > 0 && runs < PlanRunBudget {
		pc := work[0]
		work = work[1:]
		if tried[pc.String()] {
			continue
		}
		tried[pc.String()] = true
		runs++
		var ps string
		t := d.Begin()
		f := guard(func() {
			SetPlanChoices(pc)
			qi, err := parser.ProcessSQLStr(&sql)
			if err != nil {
				return
			}
			qi, err = optimizer.RewriteQueryInfo(d.Cat(), qi)
			if err != nil {
				return
			}
			err, plan := planner.NewSimplePlanner(d.Cat(), d.BPM()).MakePlan(qi, t.T)
			if err == nil && plan != nil {
				ps = optimizer.VerifPlanString(plan)
			}
		})
		trace := PlanTrace
		SetPlanChoices(nil)
		t.Commit()
		if f != nil {
			return choices, planStrs, f
		}
		if ps == "" {
			continue
		}
		if !seen[ps] {
			seen[ps] = true
			// pin every decision point of this planning run, so that the execution takes the same plan
			full := PlanChoices{}
			for _, c := range trace {
				full[c.Key] = c.Taken
			}
			choices = append(choices, full)
			planStrs = append(planStrs, ps)
		}
		work = append(work, PlanAlternatives(pc, trace)...)
	}
	return
}

// ExecPlan runs a hand-built plan (values the SQL literal forms cannot express).
func (t *Txn) ExecPlan(plan plans.Plan) (res StmtResult) {
	res.Fail = guard(func() { res.Rows, res.Aborted, res.IsQuery = t.runPlan(plan) })
	return res
}

func convRows(vals [][]*types.Value) Rows {
	out := Rows{}
	for _, r := range vals {
		row := make([]any, len(r))
		for i, v := range r {
			if v.IsNull() {
				row[i] = nil
				continue
			}
			switch v.ValueType() {
			case types.Integer:
				row[i] = v.ToInteger()
			case types.Float:
				row[i] = v.ToFloat()
			case types.Varchar:
				row[i] = v.ToVarchar()
			default:
				row[i] = fmt.Sprint(v.ToIFValue())
			}
		}
		out = append(out, row)
	}
	return out
}

func (t *Txn) Commit() *Failure {
	t.End = true
	return guard(func() { t.db.TM().Commit(t.db.Cat(), t.T) })
}

func (t *Txn) Abort() *Failure {
	t.End = true
	return guard(func() { t.db.TM().Abort(t.db.Cat(), t.T) })
}

// Auto runs one auto-commit statement (begin, exec, commit or abort), as ExecuteSQLRetValues does.
func (d *DB) Auto(sql string) StmtResult {
	t := d.Begin()
	r := t.Exec(sql)
	if r.Fail != nil {
		return r
	}
	if r.Aborted {
		if f := t.Abort(); f != nil {
			r.Fail = f
		}
		return r
	}
	if f := t.Commit(); f != nil {
		r.Fail = f
	}
	return r
}

// CreateTable creates td through SQL DDL, or through the catalog API when index kinds are given.
func (d *DB) CreateTable(td TableDef) *Failure {
	if td.Idx == nil {
		r := d.Auto(td.CreateSQL())
		if r.Fail != nil {
			return r.Fail
		}
		if r.Err != "" || r.Aborted {
			return &Failure{Kind: "refused", Msg: fmt.Sprintf("CREATE TABLE refused: %s aborted=%v", r.Err, r.Aborted), Where: "ddl"}
		}
		return nil
	}
	return guard(func() {
		var cols []*column.Column
		for i, c := range td.Cols {
			ty := map[ColType]types.TypeID{TInt: types.Integer, TFloat: types.Float, TStr: types.Varchar}[c.Type]
			kind, has := index_constants.IndexKindInvalid, true
			switch td.Idx[i] {
			case "skip":
				kind = index_constants.IndexKindSkipList
			case "uniq":
				kind = index_constants.IndexKindUniqSkipList
			case "btree":
				kind = index_constants.IndexKindBtree
			case "hash":
				kind = index_constants.IndexKindHash
			default:
				has = false
			}
			cols = append(cols, column.NewColumn(c.Name, ty, has, kind, types.PageID(-1), nil))
		}
		t := d.Begin()
		d.Cat().CreateTable(td.Name, schema.NewSchema(cols), t.T)
		d.TM().Commit(d.Cat(), t.T)
	})
}

// MustAuto is Auto for set-up statements that cannot reasonably fail; a failure is a harness error.
func (d *DB) MustAuto(sql string) Rows {
	r := d.Auto(sql)
	if r.Fail != nil || r.Aborted || r.Err != "" {
		panic(fmt.Sprintf("set-up statement failed: %s: %+v", sql, r))
	}
	return r.Rows
}

// ---- multiset comparison of answers ---------------------------------------------------------------

func rowKey(r []any) string {
	var sb strings.Builder
	for _, v := range r {
		switch x := v.(type) {
		case nil:
			sb.WriteString("N|")
		case int32:
			fmt.Fprintf(&sb, "i%d|", x)
		case int:
			fmt.Fprintf(&sb, "i%d|", x)
		case float32:
			if x == 0 {
				x = 0 // -0.0 and +0.0 are the same value
			}
			fmt.Fprintf(&sb, "f%v|", x)
		case string:
			fmt.Fprintf(&sb, "s%d:%s|", len(x), x)
		default:
			fmt.Fprintf(&sb, "?%v|", x)
		}
	}
	return sb.String()
}

// Canon renders a row multiset canonically (order-insensitive).
func (rs Rows) Canon() string {
	keys := make([]string, len(rs))
	for i, r := range rs {
		keys[i] = rowKey(r)
	}
	sort.Strings(keys)
	return strings.Join(keys, "\n")
}

// Ordered renders the rows in the order returned.
func (rs Rows) Ordered() string {
	keys := make([]string, len(rs))
	for i, r := range rs {
		keys[i] = rowKey(r)
	}
	return strings.Join(keys, "\n")
}

func (rs Rows) Short() string {
	s := fmt.Sprint([][]any(rs))
	if len(s) > 300 {
		s = s[:300] + "…"
	}
	return s
}

func removeAllImpl(d string) error { return os.RemoveAll(d) }

func firstN(s string, n int) string {
	if len(s) > n {
		return s[:n] + "…"
	}
	return s
}
