package props

// C04 — statements see committed data plus their own writes, or abort.
// Part A (Engine A): every statement-granularity interleaving of two transaction programs (1-2 statements
// each, thorough: up to 3 and a third transaction) over a small table, reads through every access path
// (sequential scan, index point, index range), inserts, deletes, in-place / key-changing / relocating
// updates, every commit/abort outcome. Oracle: a statement whose transaction is not aborted returns the
// row-model answer over (committed state at that instant + the transaction's own pending writes); a
// write that lands on a row carrying another transaction's pending change must abort.
// Part B (Engine C) runs the same statements as real goroutines under the scheduler: c04c.go.

import (
	"encoding/json"
	"fmt"
	"strings"
	"time"

	"verif/core"
)

type c04Params struct {
	Seed    string `json:"seed"`
	MaxStmt int    `json:"max_statements_per_txn"`
	Txns    int    `json:"transactions"`
}

func c04Stmts(seed string) []*Stmt {
	k := func(v int) any { return int32(v) }
	sel := func(p Pred) *Stmt { return &Stmt{Kind: "select", Table: "t", Cols: []string{"k", "v"}, Where: p} }
	upd := func(col string, val any, p Pred) *Stmt {
		return &Stmt{Kind: "update", Table: "t", Set: []SetItem{{col, val}}, Where: p}
	}
	vSame, vBig := "w2", bigStr("g", 40)
	if seed == "page-full" {
		vSame, vBig = bigStr("u", 655), bigStr("R", 700)
	}
	return []*Stmt{
		sel(Leaf{"k", "=", k(2)}),                                   // 0 index point
		sel(And{Leaf{"k", ">=", k(1)}, Leaf{"k", "<=", k(3)}}),      // 1 index range
		sel(ForceScan(Leaf{"k", ">=", k(-5)})),                      // 2 sequential scan (every row, whatever it holds)
		{Kind: "insert", Table: "t", Cols: []string{"k", "v"}, Rows: [][]any{{k(2), "dup"}}}, // 3 insert (duplicate key 2)
		{Kind: "delete", Table: "t", Where: Leaf{"k", "=", k(2)}},   // 4 delete
		upd("v", vSame, Leaf{"k", "=", k(2)}),                       // 5 in-place update
		upd("k", k(20), Leaf{"k", "=", k(2)}),                       // 6 key-changing update
		upd("v", vBig, Leaf{"k", "=", k(3)}),                        // 7 growing / relocating update
		{Kind: "delete", Table: "t", Where: Leaf{"k", "=", k(1)}},   // 8 delete of the first row
		upd("v", "s1", ForceScan(Leaf{"k", "=", k(1)})),             // 9 update of row 1 driven by a sequential scan
	}
}

// c04Classify turns a wrong answer into a finding identified by its cause: which rows are hidden or
// wrongly visible, and what the transaction that has a pending change on them did to them.
func c04Classify(w *World, op string, v *core.Violation) *core.Violation {
	isWrong := strings.Contains(v.Signature, "wrong-answer")
	isDirty := strings.Contains(v.Signature, "dirty-write")
	if !isWrong && !isDirty {
		return v
	}
	var txn, si int
	fmt.Sscanf(op, "sql:%d:%d", &txn, &si)
	s := w.cfg.Stmts[si]
	path := "index-path"
	if s.Where != nil && s.Where.HasOr() {
		path = "scan-path"
	}
	pendKind := func(r *MRow) string {
		switch {
		case r.Com == nil:
			return "insert"
		case r.PendDel:
			return "delete"
		case r.Pend != nil && r.Pend[0] != r.Com[0]:
			return "key-update"
		}
		return "update"
	}
	td := &w.model.Tables["t"].Def
	causes := map[string]bool{}
	for _, r := range w.model.Tables["t"].Rows {
		if r.Owner == 0 {
			continue
		}
		who := "other"
		if r.Owner == txn {
			who = "own"
		}
		// does the statement's predicate select the committed or the pending image of this row?
		hit := (r.Com != nil && matches(td, s.Where, r.Com)) || (r.Pend != nil && matches(td, s.Where, r.Pend))
		if hit {
			causes[who+":"+pendKind(r)] = true
		}
	}
	var ks []string
	for k := range causes {
		if strings.HasPrefix(k, "other:") {
			ks = append(ks, k)
		}
	}
	if len(ks) == 0 {
		// no other transaction is involved: the statement's own earlier writes are the cause
		for k := range causes {
			ks = append(ks, k)
		}
	}
	sortStrings(ks)
	what := "wrong-answer"
	if isDirty {
		what = "write-ignored-row-with-pending-change"
	}
	v.Signature = fmt.Sprintf("c04/%s/%s/%s/rows-with-pending[%s]", what, s.Kind, path, strings.Join(ks, ","))
	return v
}

func c04Cfg(p c04Params) *WorldCfg {
	td := TableDef{Name: "t", Cols: []ColDef{{"k", TInt}, {"v", TStr}}}
	cfg := &WorldCfg{Prop: "C04", Driver: "c04", MemKB: 128, Defs: map[string]TableDef{"t": td}, Stmts: c04Stmts(p.Seed), SeedCreate: []string{"t"}}
	ins := func(k int, v string) *Stmt {
		return &Stmt{Kind: "insert", Table: "t", Cols: []string{"k", "v"}, Rows: [][]any{{int32(k), v}}}
	}
	if p.Seed == "page-full" {
		for k := 1; k <= 6; k++ {
			cfg.SeedStmts = append(cfg.SeedStmts, ins(k, bigStr(fmt.Sprintf("s%d", k), 655)))
		}
	} else {
		cfg.SeedStmts = []*Stmt{ins(1, "a1"), ins(2, "a2"), ins(3, "a3")}
	}
	nStmt := map[int]int{}
	begun := map[int]bool{}
	cfg.Before = func(w *World, op string) *core.Violation {
		var t, i int
		if n, _ := fmt.Sscanf(op, "sql:%d:%d", &t, &i); n == 2 {
			nStmt[t]++
		}
		if n, _ := fmt.Sscanf(op, "begin:%d", &t); n == 1 {
			begun[t] = true
		}
		return nil
	}
	cfg.Ops = func(w *World) []string {
		var ops []string
		for t := 1; t <= p.Txns; t++ {
			_, open := w.txns[t]
			if !begun[t] {
				// transactions begin in order (symmetry)
				if t == 1 || begun[t-1] {
					ops = append(ops, fmt.Sprintf("begin:%d", t))
				}
				continue
			}
			if !open {
				continue
			}
			if nStmt[t] < p.MaxStmt {
				for i := range w.cfg.Stmts {
					ops = append(ops, fmt.Sprintf("sql:%d:%d", t, i))
				}
			}
			if nStmt[t] > 0 {
				ops = append(ops, fmt.Sprintf("commit:%d", t), fmt.Sprintf("abort:%d", t))
			}
		}
		return ops
	}
	cfg.KeyExtra = func(w *World) string { return fmt.Sprint(nStmt, begun) }
	cfg.Filter = c04Classify
	return cfg
}

func init() {
	core.Register(&core.Driver{
		Prop: "C04",
		Budget: func(tier string) time.Duration {
			if tier == "thorough" {
				return 30 * time.Minute
			}
			return 170 * time.Second
		},
		Assume: []string{
			"explicit multi-statement transactions through the call sequence of ExecuteSQLRetValues (parse, rewrite, plan, execute with a caller-owned transaction)",
			"an abort decided by the engine is always acceptable (no-wait 2PL may abort liberally); what an aborted transaction leaves behind is C03's business",
			"part A interleaves at statement granularity (single goroutine); part B runs the statements as concurrently scheduled goroutines (c04c)",
		},
		Run: func(c *core.Ctx) {
			p := c04Params{Seed: "small", MaxStmt: 2, Txns: 2}
			depth := 8
			core.BFS(c, core.SeqConfig{Name: "c04/small", Params: p, Fresh: func() core.Instance { return NewWorld(c04Cfg(p)) }, MaxDepth: depth, SplitDepth: 3})
			p2 := c04Params{Seed: "page-full", MaxStmt: 2, Txns: 2}
			if c.Thorough() {
				core.BFS(c, core.SeqConfig{Name: "c04/page-full", Params: p2, Fresh: func() core.Instance { return NewWorld(c04Cfg(p2)) }, MaxDepth: depth, SplitDepth: 3})
				p3 := c04Params{Seed: "small", MaxStmt: 1, Txns: 3}
				core.BFS(c, core.SeqConfig{Name: "c04/small/3txn", Params: p3, Fresh: func() core.Instance { return NewWorld(c04Cfg(p3)) }, MaxDepth: 9, SplitDepth: 3})
			} else {
				p2.MaxStmt = 1
				core.BFS(c, core.SeqConfig{Name: "c04/page-full", Params: p2, Fresh: func() core.Instance { return NewWorld(c04Cfg(p2)) }, MaxDepth: 6, SplitDepth: 3})
			}
			c04Concurrent(c)
		},
		Replay: func(raw json.RawMessage) (string, bool) {
			var rp struct {
				Driver  string    `json:"driver"`
				History []string  `json:"history"`
				Params  c04Params `json:"params"`
			}
			json.Unmarshal(raw, &rp)
			if rp.History != nil {
				return core.ReplayHistory(func() core.Instance { return NewWorld(c04Cfg(rp.Params)) }, rp.History)
			}
			return c04ConcReplay(raw)
		},
	})
}
