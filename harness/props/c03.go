package props

// C03 — abort restores the exact pre-transaction state. Engine A at SQL level: a committed prefix, then
// every statement sequence (up to a bound) inside a victim transaction, ended by an explicit abort or by a
// lock conflict with a second (reading) transaction, then a committed follow-up that re-uses the space.
// Oracle (differential, no model involved): full scan + every index point and range answer of every
// indexed column immediately before Begin == immediately after Abort. The follow-up is checked against
// the row model (all other rows unchanged).

import (
	"encoding/json"
	"fmt"
	"os"
	"strings"
	"time"

	"verif/core"
)

type c03Params struct {
	Idx   string `json:"index_kind"` // sql | uniq | btree | hash
	Seed  string `json:"seed"`       // small | page-full
	MemKB int    `json:"mem_kb"`
	Depth int    `json:"depth"`
}

func c03Def(kind string) TableDef {
	td := TableDef{Name: "t", Cols: []ColDef{{"k", TInt}, {"v", TStr}}}
	switch kind {
	case "uniq":
		td.Idx = []string{"uniq", ""}
	case "btree":
		td.Idx = []string{"btree", ""}
	case "hash":
		td.Idx = []string{"hash", ""}
	case "none":
		td.Idx = []string{"", ""}
	}
	return td
}

func c03Stmts(p c03Params) []*Stmt {
	ins := func(k int, v string) *Stmt {
		return &Stmt{Kind: "insert", Table: "t", Cols: []string{"k", "v"}, Rows: [][]any{{int32(k), v}}}
	}
	wh := func(k int) Pred {
		if p.Idx == "hash" {
			// the optimizer cannot use a hash index (it would build a range scan on it): statements on
			// hash-indexed tables are written so that they go to a sequential scan
			return ForceScan(Leaf{"k", "=", int32(k)})
		}
		return Leaf{"k", "=", int32(k)}
	}
	upd := func(col string, val any, k int) *Stmt {
		return &Stmt{Kind: "update", Table: "t", Set: []SetItem{{col, val}}, Where: wh(k)}
	}
	del := func(k int) *Stmt { return &Stmt{Kind: "delete", Table: "t", Where: wh(k)} }
	big := 655
	st := []*Stmt{
		ins(10, "n10"),                // 0 insert
		ins(11, bigStr("N", 600)),     // 1 big insert (new page when the page is full)
		del(2),                        // 2 delete
		del(1),                        // 3 delete first row
		ins(2, "again"),               // 4 duplicate key / re-insert of a deleted key (not for uniq)
		{Kind: "select", Table: "t", Cols: []string{"k", "v"}, Where: wh(3)}, // 5 read (takes the S lock used for conflict aborts)
	}
	if p.Idx != "hash" { // hash index: UpdateEntry is not implemented (declared limitation)
		vSame, vGrow := "b2", bigStr("g", 40)
		if p.Seed == "page-full" {
			vSame, vGrow = bigStr("u", big), bigStr("R", 700)
		}
		st = append(st,
			upd("v", vSame, 2),        // 6 in-place update
			upd("v", vGrow, 2),        // 7 growing update (relocates when the page is full)
			upd("v", "", 3),           // 8 shrinking update
			upd("k", int32(30), 3),    // 9 key-changing update
			upd("v", "second", 2),     // 10 same row again
			upd("v", "own", 10),       // 11 in-place update of a row the same transaction may have inserted
			upd("k", int32(31), 10),   // 12 key change of a row the same transaction may have inserted
			// 13 two-column SET: the key is named but keeps its value while the other column shrinks (the row is relocated)
			&Stmt{Kind: "update", Table: "t", Set: []SetItem{{"k", int32(3)}, {"v", ""}}, Where: wh(3)},
			// 14 multi-row update: with the reader's shared lock on row 3 it is refused half-way, after rows 1
			// and 2 have been written (statement-level abort of a partially executed statement)
			&Stmt{Kind: "update", Table: "t", Set: []SetItem{{"v", "m"}}, Where: And{Leaf{"k", ">=", int32(1)}, Leaf{"k", "<=", int32(3)}}},
		)
		if p.Seed != "page-full" {
			// 15 multi-row delete through the sequential scan path
			st = append(st, &Stmt{Kind: "delete", Table: "t", Where: ForceScan(Leaf{"k", "<=", int32(3)})})
		}
	}
	st = append(st, del(10)) // delete of a row the same transaction may have inserted
	return st
}

// uniqOK: with a unique index a statement may not create a second entry for a key. Index entries of
// deleted rows stay until commit, so any row image of the model (committed, pending, or the image a row had
// when the open transaction deleted it - also a row that this transaction had inserted itself) counts.
func uniqOK(w *World, s *Stmt) bool {
	var key any
	switch s.Kind {
	case "insert":
		key = s.Rows[0][0]
	case "update":
		if s.Set[0].Col != "k" {
			return true
		}
		key = s.Set[0].Val
	default:
		return true
	}
	for _, r := range w.model.Tables["t"].Rows {
		for _, img := range [][]any{r.Com, r.Pend, r.DelImg} {
			if img != nil && img[0] == key {
				return false
			}
		}
	}
	return true
}

func c03Domain(td *TableDef, c ColDef) []any {
	if c.Name == "k2" {
		return []any{int32(5), int32(6), int32(7), int32(8)}
	}
	if c.Name == "w" {
		return []any{int32(50), int32(51), int32(60), int32(70)}
	}
	if c.Name == "k" {
		return []any{int32(1), int32(2), int32(3), int32(10), int32(11), int32(30), int32(31)}
	}
	return []any{"a1", "a2", "a3", "b2", "n10", "again", "second", "own", "m", ""}
}

func c03Cfg(p c03Params) *WorldCfg {
	td := c03Def(p.Idx)
	cfg := &WorldCfg{Prop: "C03", Driver: "c03", MemKB: p.MemKB, Defs: map[string]TableDef{"t": td}, Stmts: c03Stmts(p), SeedCreate: []string{"t"}}
	if p.Seed == "two-tables" {
		// a victim that writes two tables (the second one, u, is an SQL table with skip-list indexes)
		cfg.Defs["u"] = TableDef{Name: "u", Cols: []ColDef{{"k2", TInt}, {"w", TInt}}}
		cfg.SeedCreate = []string{"t", "u"}
		cfg.Stmts = append(cfg.Stmts,
			&Stmt{Kind: "insert", Table: "u", Cols: []string{"k2", "w"}, Rows: [][]any{{int32(7), int32(70)}}},
			&Stmt{Kind: "update", Table: "u", Set: []SetItem{{"w", int32(51)}}, Where: Leaf{"k2", "=", int32(5)}},
			&Stmt{Kind: "update", Table: "u", Set: []SetItem{{"k2", int32(8)}}, Where: Leaf{"k2", "=", int32(5)}},
			&Stmt{Kind: "delete", Table: "u", Where: Leaf{"k2", "=", int32(6)}})
	}
	ins := func(k int, v string) *Stmt {
		return &Stmt{Kind: "insert", Table: "t", Cols: []string{"k", "v"}, Rows: [][]any{{int32(k), v}}}
	}
	if p.Seed == "many-pages" {
		// five heap pages and an index of 655-byte keys: more pages than the pool has frames
		var rows [][]any
		for k := 1; k <= 30; k++ {
			rows = append(rows, []any{int32(k), bigStr(fmt.Sprintf("s%d", k), 655)})
		}
		cfg.SeedStmts = append(cfg.SeedStmts, &Stmt{Kind: "insert", Table: "t", Cols: []string{"k", "v"}, Rows: rows[:15]}, &Stmt{Kind: "insert", Table: "t", Cols: []string{"k", "v"}, Rows: rows[15:]})
	} else if p.Seed == "page-full" {
		for k := 1; k <= 6; k++ {
			cfg.SeedStmts = append(cfg.SeedStmts, ins(k, bigStr(fmt.Sprintf("s%d", k), 655)))
		}
	} else {
		cfg.SeedStmts = []*Stmt{ins(1, "a1"), ins(2, "a2"), ins(3, "a3")}
	}
	if p.Seed == "two-tables" {
		cfg.SeedStmts = append(cfg.SeedStmts, &Stmt{Kind: "insert", Table: "u", Cols: []string{"k2", "w"}, Rows: [][]any{{int32(5), int32(50)}, {int32(6), int32(60)}}})
	}
	domain := c03Domain
	if p.Idx != "sql" {
		domain = func(td *TableDef, c ColDef) []any {
			if c.Name == "k" || td.Name == "u" {
				return c03Domain(td, c)
			}
			return nil
		}
	}
	// phases: 0 = committed prefix (auto-commit statements), 1 = victim open, 2 = victim aborted (follow-up)
	type st struct {
		before map[string]string
		phase  int
		nStmt  int
	}
	state := &st{}
	cfg.Ops = func(w *World) []string {
		var ops []string
		_, victim := w.txns[1]
		_, reader := w.txns[2]
		switch {
		case state.phase == 0:
			// committed prefix: at most one auto-commit statement, then the victim begins
			if len(w.hist) == 0 {
				for i, s := range w.cfg.Stmts {
					if s.Kind != "select" && !(p.Idx == "uniq" && !uniqOK(w, s)) {
						ops = append(ops, fmt.Sprintf("sql:0:%d", i))
					}
				}
			}
			ops = append(ops, "begin:1")
		case victim:
			if state.nStmt < p.Depth {
				for i, s := range w.cfg.Stmts {
					if s.Kind == "select" {
						continue
					}
					if p.Idx == "uniq" && !uniqOK(w, s) {
						continue // a unique index holds one row id per key (caller contract)
					}
					ops = append(ops, fmt.Sprintf("sql:1:%d", i))
				}
			}
			if !reader && state.nStmt <= 1 {
				// a second transaction reads row k=3 and keeps its shared lock: a later write of the
				// victim to that row is a lock conflict, i.e. an abort decided by the engine
				ops = append(ops, "begin:2")
			}
			if reader && len(w.hist) > 0 && w.hist[len(w.hist)-1] == "begin:2" {
				return []string{"sql:2:5"}
			}
			if state.nStmt > 0 {
				ops = append(ops, "abort:1")
			}
		case reader:
			return []string{"commit:2"}
		case state.phase == 2:
			// follow-up committed work re-using the space, once
			if !strings.HasPrefix(w.hist[len(w.hist)-1], "sql:0:") {
				for i, s := range w.cfg.Stmts {
					if s.Kind == "insert" && !(p.Idx == "uniq" && !uniqOK(w, s)) {
						ops = append(ops, fmt.Sprintf("sql:0:%d", i))
					}
				}
			}
		}
		return ops
	}
	cfg.Before = func(w *World, op string) *core.Violation {
		if op == "begin:1" {
			a, v := w.Answers(domain, p.Idx != "hash")
			if v != nil {
				if os.Getenv("VERIF_DEBUG") != "" {
					fmt.Fprintln(os.Stderr, "battery before begin failed:", v.Signature, v.Detail)
				}
				v.Ignore = true // the battery fails before the transaction even begins: not this property
				return v
			}
			state.before = a
			state.phase = 1
		}
		if strings.HasPrefix(op, "sql:1:") {
			state.nStmt++
		}
		return nil
	}
	check := func(w *World, op, how string) *core.Violation {
		after, v := w.Answers(domain, p.Idx != "hash")
		if v != nil {
			v.Signature = "c03/after-" + how + "/" + strings.TrimPrefix(v.Signature, "c03/")
			return v
		}
		if q, b, a, diff := DiffAnswers(state.before, after); diff {
			path := "index-path"
			if !strings.Contains(q, "WHERE") {
				path = "full-scan"
			} else if strings.Contains(q, " OR ") {
				path = "scan-path"
			}
			return w.viol("state-not-restored/"+how+"/"+path, op, fmt.Sprintf("%s\n  before begin: %q\n  after abort : %q", q, b, a))
		}
		w.last = "restored(" + how + ")"
		return nil
	}
	cfg.After = func(w *World, op string) *core.Violation {
		_, victim := w.txns[1]
		_, reader := w.txns[2]
		if state.phase == 1 && !victim && !reader {
			state.phase = 2
			how := "explicit-abort"
			if op != "abort:1" {
				how = "conflict-abort"
			}
			return check(w, op, how)
		}
		return nil
	}
	cfg.KeyExtra = func(w *World) string { return fmt.Sprintf("ph%d/n%d", state.phase, state.nStmt) }
	// statement failures of the committed prefix are not this property's business
	cfg.Filter = func(w *World, op string, v *core.Violation) *core.Violation {
		if state.phase == 0 {
			v.Ignore = true
		}
		if strings.HasPrefix(op, "sql:2:") && strings.Contains(v.Signature, "wrong-answer") {
			// what the concurrent reader sees is C04's business; here it only has to hold its lock
			return nil
		}
		return v
	}
	return cfg
}

func init() {
	core.Register(&core.Driver{
		Prop: "C03",
		Budget: func(tier string) time.Duration {
			if tier == "thorough" {
				return 25 * time.Minute
			}
			return 480 * time.Second
		},
		Assume: []string{
			"explicit transactions through the call sequence of ExecuteSQLRetValues; background threads off (H2)",
			"index kinds: skip list on every column (SQL DDL), unique skip list / B-tree / hash on the key column via catalog.CreateTable; hash without UPDATE (UpdateEntry not implemented), unique index without duplicate keys (caller contract)",
			"indexed varchar values <= 700 bytes (longer keys panic by design)",
			"conflict abort = the victim writes a row on which a second transaction holds a shared lock; the reader commits before the snapshot is compared",
		},
		Run: func(c *core.Ctx) {
			depth := 2
			if c.Thorough() {
				depth = 3
			}
			for _, kind := range []string{"sql", "uniq", "btree", "hash"} {
				seeds := []string{"small", "page-full"}
				if kind == "sql" || kind == "btree" {
					seeds = append(seeds, "two-tables")
				}
				for _, seed := range seeds {
					p := c03Params{Idx: kind, Seed: seed, MemKB: 128, Depth: depth}
					core.BFS(c, core.SeqConfig{Name: fmt.Sprintf("c03/%s/%s", kind, seed), Params: p,
						Fresh: func() core.Instance { return NewWorld(c03Cfg(p)) }, MaxDepth: depth + 6, SplitDepth: 2})
				}
			}
			// a pool smaller than the table and its indexes (12 frames): pages written by the victim are evicted
			// - with their delete marks - before the abort, and the pages the abort repairs are evicted again
			// before the battery reads them
			ps := c03Params{Idx: "sql", Seed: "many-pages", MemKB: 48, Depth: depth}
			core.BFS(c, core.SeqConfig{Name: "c03/sql/many-pages/mem48", Params: ps,
				Fresh: func() core.Instance { return NewWorld(c03Cfg(ps)) }, MaxDepth: depth + 6, SplitDepth: 2})
		},
		Replay: func(raw json.RawMessage) (string, bool) {
			var rp struct {
				History []string  `json:"history"`
				Params  c03Params `json:"params"`
			}
			json.Unmarshal(raw, &rp)
			return core.ReplayHistory(func() core.Instance { return NewWorld(c03Cfg(rp.Params)) }, rp.History)
		},
	})
}
