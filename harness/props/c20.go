package props

// C20 — recovery can be interrupted and repeated. Engine B, nested: the recovery run that starts from a
// first-generation crash image is itself executed under the I/O recorder; every prefix of ITS trace
// (page flushes - in every subset of a flush-all run -, log truncation, re-seeded log records, index
// rebuild page writes; last write optionally torn) gives a second-generation image that is recovered
// again and must give exactly the tables the uninterrupted recovery gives (and lie in the admissible
// set of the first crash). Third generation for the smallest histories in thorough mode.

import (
	"bytes"
	"encoding/json"
	"fmt"
	"strings"
	"time"

	"verif/core"
)

// c20Histories: the C01 histories with at most maxOps DML statements.
func c20Histories(seed *CrashSeed, thorough bool, maxOps int) [][]HOp {
	var out [][]HOp
	if strings.HasPrefix(seed.Name, "huge") || strings.HasPrefix(seed.Name, "long") || strings.HasSuffix(seed.Name, "/after-recovery") {
		return nil // the nested enumeration over a 600 KB log is left to C01/C02/C08
	}
	for _, h := range crashHistories(seed, thorough) {
		n := 0
		for _, o := range h {
			if o.Kind == "stmt" {
				n++
			}
		}
		if n <= maxOps {
			out = append(out, h)
		}
	}
	return out
}

func sameScans(a, b *Recovered) (string, bool) {
	for t, ra := range a.Scan {
		if rb, ok := b.Scan[t]; !ok || ra.Canon() != rb.Canon() {
			return fmt.Sprintf("table %s: uninterrupted recovery gives %s, interrupted+repeated recovery gives %s", t, ra.Short(), b.Scan[t].Short()), false
		}
	}
	return "", true
}

// recTrace turns the recorder of a recovery run into a HistoryRun-like trace over the crash image.
func recTrace(base *Image, rec *Recorder) *HistoryRun {
	return &HistoryRun{Base: base, Events: rec.Events}
}

func c20Run(c *core.Ctx) {
	res := c.Res
	maxOps := 1
	if c.Thorough() {
		maxOps = 2
	}
	res.Bound["first_generation"] = fmt.Sprintf("C01 histories with <= %d DML statements, every crash point (torn log writes included, torn page writes excluded: known finding of C01)", maxOps)
	res.Bound["second_generation"] = "every prefix of the recovery's own I/O trace, every subset of its flush-all runs, torn last log write"
	seeds := crashSeeds(c.Thorough())
	item := 0
	n1, n2, n3 := int64(0), int64(0), int64(0)
	for _, seed := range seeds {
		hs := c20Histories(seed, false, maxOps)
		res.Bound[fmt.Sprintf("histories[%s]", seed.Name)] = len(hs)
		for hi, h := range hs {
			item++
			if !c.Mine(item) {
				continue
			}
			if c.Expired() {
				return
			}
			hr := RunHistory(seed, h)
			res.Traces++
			for _, p := range hr.Points(true, false) {
				im1 := hr.ImageAt(p)
				rc1 := Recover(im1, seed.Tables, seed.MemKB, crashProbe, true)
				n1++
				if rc1.Fail != nil || rc1.Rec == nil || len(judge(hr, p, rc1)) > 0 {
					// the first recovery already fails: C01/C02's business, nothing to nest
					res.Outcome("first-recovery-not-ok")
					continue
				}
				tr := recTrace(im1, rc1.Rec)
				if rc1.AfterOpen != nil {
					// the recorded I/O of the recovery, replayed over the crash image, must give the files the
					// recovery really left behind - otherwise the second-generation images are fiction
					imf := im1.clone()
					for i := range tr.Events {
						imf.apply(&tr.Events[i], -1)
					}
					if !bytes.Equal(imf.DB, rc1.AfterOpen.DB) || !bytes.Equal(imf.Log, rc1.AfterOpen.Log) {
						res.Nondet = append(res.Nondet, fmt.Sprintf("I/O trace of the recovery of history %d (%s) does not reproduce the files it wrote (log %d vs %d bytes)", hi, hr.Describe(p), len(imf.Log), len(rc1.AfterOpen.Log)))
						continue
					}
				}
				var evKinds []string
				for _, e := range tr.Events {
					evKinds = append(evKinds, string(e.Kind))
				}
				res.Outcome("recovery-trace:" + compressKinds(evKinds))
				for _, q := range tr.Points(true, false) {
					im2 := tr.ImageAt(q)
					third := c.Thorough() && len(h) <= 3
					rc2 := Recover(im2, seed.Tables, seed.MemKB, crashProbe, third)
					n2++
					res.States++
					res.Transitions++
					report := func(clause, detail string, gen int, q2 string) {
						cls := tr.Class(q)
						res.Outcome("VIOLATION:" + clause)
						res.Violate(&core.Violation{Property: "C20",
							Signature: fmt.Sprintf("nested/%s/%s/%s", clause, hr.KindList(), lastKind(tr, q)),
							Detail: fmt.Sprintf("%s\nseed %s; history:\n    %s\nfirst crash: %s (%s)\nrecovery trace: %v\nsecond crash inside recovery: %s (%s)%s",
								detail, seed.Name, strings.Join(hr.Executed, "\n    "), hr.Describe(p), hr.Class(p), traceSig(tr, len(tr.Events)), tr.Describe(q), cls, q2),
							Replay: map[string]any{"first": mkReplay(hr, seed, hi, p, false), "second_n": q.N, "second_cut": q.Cut, "second_pages": pagesOf(tr, q.Extra), "max_ops": maxOps}})
					}
					if rc2.Fail != nil {
						report("second-recovery-"+rc2.Fail.Kind+"@"+rc2.Fail.Where, rc2.Fail.String(), 2, "")
						continue
					}
					if rc2.ScanErr != "" {
						report("second-recovery-scan-failed", rc2.ScanErr, 2, "")
						continue
					}
					if d, ok := sameScans(rc1, rc2); !ok {
						report("recovery-not-repeatable", d, 2, "")
						continue
					}
					if rc2.Probe != "" {
						report("probe-failed-after-second-recovery", rc2.Probe, 2, "")
						continue
					}
					res.Outcome("second-recovery-ok:" + lastKind(tr, q))
					if third && rc2.Rec != nil {
						tr2 := recTrace(im2, rc2.Rec)
						for _, r := range tr2.Points(false, false) {
							rc3 := Recover(tr2.ImageAt(r), seed.Tables, seed.MemKB, crashProbe, false)
							n3++
							res.States++
							res.Transitions++
							if rc3.Fail != nil {
								report("third-recovery-"+rc3.Fail.Kind+"@"+rc3.Fail.Where, rc3.Fail.String(), 3, "\nthird crash: "+tr2.Describe(r))
							} else if d, ok := sameScans(rc1, rc3); !ok {
								report("recovery-not-repeatable-3rd-generation", d, 3, "\nthird crash: "+tr2.Describe(r))
							}
						}
					}
				}
			}
			if len(res.Samples) < 2 {
				res.Sample(map[string]any{"seed": seed.Name, "history": hr.Executed})
			}
			hr.Cleanup()
		}
	}
	res.Extra["first_generation_images"] = float64(n1)
	res.Extra["second_generation_images"] = float64(n2)
	res.Extra["third_generation_images"] = float64(n3)
}

func pagesOf(tr *HistoryRun, evs []int) []int {
	var out []int
	for _, e := range evs {
		out = append(out, int(tr.Events[e].Page))
	}
	return out
}

func lastKind(tr *HistoryRun, q CrashPoint) string {
	parts := strings.Split(tr.Class(q), ",")
	return parts[1] + "," + parts[2]
}

func compressKinds(k []string) string {
	var sb strings.Builder
	for i := 0; i < len(k); {
		j := i
		for j < len(k) && k[j] == k[i] {
			j++
		}
		fmt.Fprintf(&sb, "%s%d", k[i], j-i)
		i = j
	}
	return sb.String()
}

func init() {
	core.Register(&core.Driver{
		Prop: "C20",
		Budget: func(tier string) time.Duration {
			if tier == "thorough" {
				return 40 * time.Minute
			}
			return 7 * time.Minute
		},
		Assume: append([]string{
			"first-generation images are those of C01/C02 whose (uninterrupted) recovery is itself correct; the others are C01/C02's findings",
			"the oracle is differential: an interrupted and repeated recovery must give exactly the tables the uninterrupted recovery of the same image gives",
		}, crashAssume...),
		Run: c20Run,
		Replay: func(raw json.RawMessage) (string, bool) {
			var rp struct {
				First  crashReplay `json:"first"`
				N      int         `json:"second_n"`
				Cut    int         `json:"second_cut"`
				Pages  []int       `json:"second_pages"`
				MaxOps int         `json:"max_ops"`
			}
			json.Unmarshal(raw, &rp)
			for _, seed := range append(crashSeeds(false), crashSeeds(true)...) {
				if seed.Name != rp.First.Seed {
					continue
				}
				hs := c20Histories(seed, false, rp.MaxOps)
				for try := 0; try < 200; try++ {
					hr := RunHistory(seed, hs[rp.First.HistIdx])
					p, ok := rp.First.locate(hr)
					if !ok {
						hr.Cleanup()
						continue
					}
					im1 := hr.ImageAt(p)
					rc1 := Recover(im1, seed.Tables, seed.MemKB, crashProbe, true)
					if rc1.Fail != nil || rc1.Rec == nil {
						hr.Cleanup()
						return "first recovery fails: " + fmt.Sprint(rc1.Fail), false
					}
					tr := recTrace(im1, rc1.Rec)
					q := CrashPoint{N: rp.N, Cut: rp.Cut, Torn: -1}
					for _, pg := range rp.Pages {
						for i := rp.N; i < len(tr.Events) && tr.Events[i].Kind == 'P'; i++ {
							if int(tr.Events[i].Page) == pg {
								q.Extra = append(q.Extra, i)
							}
						}
					}
					if q.N > len(tr.Events) {
						hr.Cleanup()
						continue
					}
					rc2 := Recover(tr.ImageAt(q), seed.Tables, seed.MemKB, crashProbe, false)
					hr.Cleanup()
					desc := fmt.Sprintf("history %v\nfirst crash %s\nrecovery trace %v\nsecond crash %s\n", hr.Executed, hr.Describe(p), traceSig(tr, len(tr.Events)), tr.Describe(q))
					if rc2.Fail != nil {
						return desc + rc2.Fail.String(), true
					}
					if d, ok := sameScans(rc1, rc2); !ok {
						return desc + d, true
					}
					return desc + "second recovery gives the same tables", false
				}
			}
			return "could not reproduce the first-generation trace", false
		},
	})
}
