package props

// C10 — tables keep their identity, schema and data across restarts.
// Engine A at SQL level: CREATE TABLE statements (different arities/types) interleaved with DML on any
// existing table and with clean and crash restarts (crash = the process dies at a statement boundary:
// nothing that was not written by the engine itself reaches the files).

import (
	"encoding/json"
	"fmt"
	"sort"
	"strings"
	"time"

	"github.com/ryogrid/SamehadaDB/lib/types"

	"verif/core"
)

func c10Defs() map[string]TableDef {
	return map[string]TableDef{
		"ta": {Name: "ta", Cols: []ColDef{{"a", TInt}}},
		"tb": {Name: "tb", Cols: []ColDef{{"b", TInt}, {"s", TStr}}},
		"Tc": {Name: "Tc", Cols: []ColDef{{"f", TFloat}, {"c", TInt}, {"u", TStr}}},
	}
}

// c10SpillTables: 14 tables of 4 long-named columns - their rows in the columns catalog do not fit one
// catalog page (the "catalog-spill" seed).
func c10SpillTables() []TableDef {
	var out []TableDef
	for i := 0; i < 14; i++ {
		n := fmt.Sprintf("w%02d", i)
		long := "a_column_with_a_rather_long_name_"
		out = append(out, TableDef{Name: n, Cols: []ColDef{{long + "i", TInt}, {long + "f", TFloat}, {long + "s", TStr}, {long + "j", TInt}}})
	}
	return out
}

func c10Stmts() []*Stmt {
	ins := func(t string, cols []string, row ...any) *Stmt {
		return &Stmt{Kind: "insert", Table: t, Cols: cols, Rows: [][]any{row}}
	}
	return []*Stmt{
		ins("ta", []string{"a"}, int32(1)),
		ins("ta", []string{"a"}, int32(2)),
		{Kind: "delete", Table: "ta", Where: Leaf{"a", "=", int32(1)}},
		ins("tb", []string{"b", "s"}, int32(10), "ten"),
		ins("tb", []string{"b", "s"}, int32(11), c09Long),
		{Kind: "update", Table: "tb", Set: []SetItem{{"s", "TEN"}}, Where: Leaf{"b", "=", int32(10)}},
		ins("Tc", []string{"f", "c", "u"}, float32(0.5), int32(7), "seven"),
		{Kind: "delete", Table: "Tc", Where: Leaf{"c", "=", int32(7)}},
	}
}

type c10Params struct {
	Seed      string `json:"seed"`
	MemKB     int  `json:"mem_kb"`
	MaxTables int  `json:"max_tables"`
	MaxRest   int  `json:"max_restarts"`
	Crash     bool `json:"crash"`
}

func c10Base(p c10Params) *WorldCfg {
	cfg := &WorldCfg{Prop: "C10", Driver: "c10", MemKB: p.MemKB, Defs: c10Defs(), Stmts: c10Stmts()}
	order := []string{"ta", "tb", "Tc"}
	nSeedTables := 0
	if p.Seed == "catalog-spill" {
		long := "a_column_with_a_rather_long_name_"
		for _, td := range c10SpillTables() {
			cfg.Defs[td.Name] = td
			cfg.SeedCreate = append(cfg.SeedCreate, td.Name)
			nSeedTables++
		}
		cols := []string{long + "i", long + "f", long + "s", long + "j"}
		cfg.SeedStmts = []*Stmt{
			{Kind: "insert", Table: "w00", Cols: cols, Rows: [][]any{{int32(1), float32(1.5), "first", int32(10)}}},
			{Kind: "insert", Table: "w13", Cols: cols, Rows: [][]any{{int32(2), float32(2.5), "last", int32(20)}}},
		}
		// a short alphabet: the point of this seed is CREATE TABLE and restarts on a catalog of two pages
		cfg.Stmts = []*Stmt{
			{Kind: "insert", Table: "ta", Cols: []string{"a"}, Rows: [][]any{{int32(1)}}},
			{Kind: "insert", Table: "w07", Cols: cols, Rows: [][]any{{int32(3), float32(3.5), "middle", int32(30)}}},
			{Kind: "insert", Table: "tb", Cols: []string{"b", "s"}, Rows: [][]any{{int32(10), "ten"}}},
		}
	}
	if p.Seed == "tb-page-full" {
		// tb's first heap page is one row short of full: the next long row allocates a second page
		cfg.SeedCreate = []string{"ta", "tb"}
		for i := 0; i < 6; i++ {
			cfg.SeedStmts = append(cfg.SeedStmts, &Stmt{Kind: "insert", Table: "tb", Cols: []string{"b", "s"}, Rows: [][]any{{int32(20 + i), c09Long}}})
		}
	}
	cfg.Ops = func(w *World) []string {
		var ops []string
		n := len(w.model.Order) - nSeedTables
		if n < p.MaxTables {
			// tables may be created in either of two orders so that oids and page ids differ between histories
			for _, t := range order {
				if !w.HasTable(t) {
					ops = append(ops, "create:"+t)
				}
			}
		}
		for i, s := range w.cfg.Stmts {
			if w.HasTable(s.Table) {
				ops = append(ops, fmt.Sprintf("sql:0:%d", i))
			}
		}
		if w.nRest < p.MaxRest {
			ops = append(ops, "restart:clean")
			if p.Crash {
				ops = append(ops, "restart:crash")
			}
		}
		return ops
	}
	return cfg
}

func c10Cfg(p c10Params) *WorldCfg {
	cfg := c10Base(p)
	cfg.Filter = restartFilter(func() *WorldCfg { return c10Base(p) })
	cfg.After = func(w *World, op string) *core.Violation {
		if w.nRest == 0 {
			return nil
		}
		return c10Check(w, op)
	}
	return cfg
}

// c10Check: every created table is reachable under its name, with its schema, its rows, and storage
// and identifiers of its own.
func c10Check(w *World, op string) *core.Violation {
	kind := "restart"
	cat := w.db.Cat()
	oids := map[uint32]string{}
	pages := map[types.PageID]string{}
	for _, name := range w.model.Order {
		td := w.model.Tables[name].Def
		tm := cat.GetTableByName(name)
		if tm == nil {
			return w.viol(kind+"/table-unreachable", op, fmt.Sprintf("table %s is not reachable under its name", name))
		}
		sc := tm.Schema()
		if int(sc.GetColumnCount()) != len(td.Cols) {
			return w.viol(kind+"/schema-changed", op, fmt.Sprintf("table %s has %d columns, created with %d", name, sc.GetColumnCount(), len(td.Cols)))
		}
		for i, c := range td.Cols {
			col := sc.GetColumn(uint32(i))
			wantT := map[ColType]types.TypeID{TInt: types.Integer, TFloat: types.Float, TStr: types.Varchar}[c.Type]
			// (the catalog keeps table names in lower case by design: the table prefix of a column name is
			// compared case-insensitively)
			if !strings.EqualFold(col.GetColumnName(), name+"."+c.Name) || col.GetType() != wantT {
				return w.viol(kind+"/schema-changed", op, fmt.Sprintf("table %s column %d is %s/%v, created as %s/%v", name, i, col.GetColumnName(), col.GetType(), c.Name, wantT))
			}
		}
		if o, dup := oids[tm.OID()]; dup {
			return w.viol(kind+"/identifier-shared", op, fmt.Sprintf("tables %s and %s share table id %d", o, name, tm.OID()))
		}
		oids[tm.OID()] = name
		fp := tm.Table().GetFirstPageID()
		if o, dup := pages[fp]; dup {
			return w.viol(kind+"/storage-shared", op, fmt.Sprintf("tables %s and %s share first page %d", o, name, fp))
		}
		pages[fp] = name
	}
	// the catalog must not know more user tables than were created
	var extra []string
	for _, tm := range cat.GetAllTables() {
		n := *tm.GetTableName()
		known := false
		for _, o := range w.model.Order {
			if strings.EqualFold(o, n) {
				known = true
			}
		}
		if n != "columns_catalog" && !known {
			extra = append(extra, n)
		}
	}
	if len(extra) > 0 {
		sort.Strings(extra)
		return w.viol(kind+"/phantom-table", op, "catalog lists tables never created: "+strings.Join(extra, ","))
	}
	for _, name := range w.model.Order {
		sel := &Stmt{Kind: "select", Table: name, Cols: []string{"*"}}
		want := w.model.Apply(0, sel).Rows
		got, v := w.Query(sel.SQL())
		if v != nil {
			v.Signature = "c10/" + kind + "/" + strings.TrimPrefix(v.Signature, "c10/")
			return v
		}
		if got.Canon() != want.Canon() {
			return w.viol(kind+"/rows-changed", op, fmt.Sprintf("%s\n  engine: %s\n  model : %s", sel.SQL(), got.Short(), want.Short()))
		}
	}
	w.last = "tables-intact"
	return nil
}

func init() {
	core.Register(&core.Driver{
		Prop: "C10",
		Budget: func(tier string) time.Duration {
			if tier == "thorough" {
				return 25 * time.Minute
			}
			return 150 * time.Second
		},
		Assume: []string{
			"auto-commit statements; background threads off (hook H2); crash restart = process death at a statement boundary (crash points inside statements belong to C01/C02)",
			"up to 3 tables of arity 1-3 over INT/FLOAT/VARCHAR, created in any order; pool 128 KB; seed catalog-spill: 14 four-column tables with long column names (the columns catalog spans two pages), pool 2 MB",
		},
		Run: func(c *core.Ctx) {
			p := c10Params{MemKB: 128, MaxTables: 3, MaxRest: 2, Crash: true}
			depth := 5
			if c.Thorough() {
				p.MaxRest = 3
				depth = 7
			}
			for _, seed := range []string{"empty", "tb-page-full", "catalog-spill"} {
				p := p
				p.Seed = seed
				if seed == "catalog-spill" {
					// 14 x 4 indexed columns keep 112 index pages pinned: a large pool; two restarts are the point
					p.MemKB, p.MaxTables, p.Crash = 2048, 2, false
				}
				core.BFS(c, core.SeqConfig{Name: "c10/" + seed, Params: p, Fresh: func() core.Instance { return NewWorld(c10Cfg(p)) }, MaxDepth: depth, SplitDepth: 2})
			}
		},
		Replay: func(raw json.RawMessage) (string, bool) {
			var rp struct {
				History []string  `json:"history"`
				Params  c10Params `json:"params"`
			}
			json.Unmarshal(raw, &rp)
			return core.ReplayHistory(func() core.Instance { return NewWorld(c10Cfg(rp.Params)) }, rp.History)
		},
	})
}
