package props

// C01 — committed transactions survive any crash;  C02 — unfinished or aborted transactions leave no
// trace after recovery. One exploration (Engine B), two verdicts.

import (
	"encoding/json"
	"fmt"
	"sort"
	"strings"
	"time"

	"verif/core"
)

var crashT = TableDef{Name: "t", Cols: []ColDef{{"k", TInt}, {"v", TStr}}}

func bigStr(tag string, n int) string {
	s := strings.Repeat(tag, n/len(tag)+1)
	return s[:n]
}

func crashSeeds(thorough bool) []*CrashSeed {
	ins := func(k int, v string) *Stmt {
		return &Stmt{Kind: "insert", Table: "t", Cols: []string{"k", "v"}, Rows: [][]any{{int32(k), v}}}
	}
	small := []*Stmt{ins(1, "a1"), ins(2, "a2"), ins(3, "a3")}
	var full []*Stmt
	for k := 1; k <= 6; k++ {
		full = append(full, ins(k, bigStr(fmt.Sprintf("s%d", k), 655)))
	}
	var two []*Stmt
	for k := 1; k <= 8; k++ {
		two = append(two, ins(k, bigStr(fmt.Sprintf("s%d", k), 600)))
	}
	var seeds []*CrashSeed
	for _, mem := range []int{128, 32} {
		for _, ck := range []bool{false, true} {
			if !thorough && (mem == 128) == ck {
				// quick: each seed shape with both pool sizes and both checkpoint states, but not the full product
				// (small: 128/no-ckpt and 32/ckpt; page-full: the other two)
				sfx := fmt.Sprintf("/mem%d/ckpt=%v", mem, ck)
				seeds = append(seeds, &CrashSeed{Name: "page-full" + sfx, MemKB: mem, Tables: []TableDef{crashT}, Stmts: full, Ckpt: ck})
				continue
			}
			if !thorough {
				sfx := fmt.Sprintf("/mem%d/ckpt=%v", mem, ck)
				seeds = append(seeds, &CrashSeed{Name: "small" + sfx, MemKB: mem, Tables: []TableDef{crashT}, Stmts: small, Ckpt: ck})
				continue
			}
			sfx := fmt.Sprintf("/mem%d/ckpt=%v", mem, ck)
			seeds = append(seeds, &CrashSeed{Name: "small" + sfx, MemKB: mem, Tables: []TableDef{crashT}, Stmts: small, Ckpt: ck})
			seeds = append(seeds, &CrashSeed{Name: "page-full" + sfx, MemKB: mem, Tables: []TableDef{crashT}, Stmts: full, Ckpt: ck})
			if thorough {
				seeds = append(seeds, &CrashSeed{Name: "two-pages" + sfx, MemKB: mem, Tables: []TableDef{crashT}, Stmts: two, Ckpt: ck})
			}
		}
	}
	// histories in a session that follows a crash and a recovery with a loser: T11 (two statements, in
	// flight) and T12 (committed: its commit forces T11's records to disk), process death, restart
	for _, base := range append([]*CrashSeed{}, seeds...) {
		if !thorough && !(strings.HasPrefix(base.Name, "small") && base.MemKB == 128) && !(strings.HasPrefix(base.Name, "page-full") && base.MemKB == 32) {
			continue // quick: one pool size per seed shape
		}
		a11, a12 := crashAlphabet(base, 11), crashAlphabet(base, 12)
		pro := []HOp{{Txn: 11, Kind: "begin"}}
		first, second, other := "upd1", "grow2", "ins"
		if strings.HasPrefix(base.Name, "page-full") {
			first, second, other = "upd1", "del3", "key4"
		}
		if strings.HasPrefix(base.Name, "two-pages") {
			continue
		}
		pro = append(pro, HOp{Txn: 11, Kind: "stmt", Stmt: a11[first]}, HOp{Txn: 11, Kind: "stmt", Stmt: a11[second]},
			HOp{Txn: 12, Kind: "begin"}, HOp{Txn: 12, Kind: "stmt", Stmt: a12[other]}, HOp{Txn: 12, Kind: "commit"})
		cp := *base
		cp.Name = base.Name + "/after-recovery"
		cp.Prologue = pro
		seeds = append(seeds, &cp)
	}
	// histories in a session that follows a clean shutdown and an idle session (opened and shut down without a
	// statement): the LSN counter and the log across clean restarts
	for _, base := range append([]*CrashSeed{}, seeds...) {
		if base.Name != "small/mem128/ckpt=false" && !(thorough && base.Name == "page-full/mem128/ckpt=false") {
			continue
		}
		a12 := crashAlphabet(base, 12)
		cp := *base
		cp.Name = base.Name + "/after-idle-session/after-recovery"
		cp.Prologue = []HOp{{Txn: 12, Kind: "begin"}, {Txn: 12, Kind: "stmt", Stmt: a12["upd1"]}, {Txn: 12, Kind: "commit"}}
		cp.CleanIdle = true
		seeds = append(seeds, &cp)
	}
	// one transaction whose log records exceed the log buffer (129 pages): the record that straddles the
	// end of the buffer, the flush in the middle of a statement and a commit whose records span two log
	// writes. 3 800-byte rows (one per heap page, no index on the wide column), pool large enough not to evict.
	seeds = append(seeds, &CrashSeed{Name: "huge-txn/mem4096", MemKB: 4096, Tables: []TableDef{crashHugeT},
		Stmts: []*Stmt{{Kind: "insert", Table: "t", Cols: []string{"k", "v"}, Rows: [][]any{{int32(1), "a1"}}}}})
	// rows of 2 100 bytes (one per heap page; the wide column has no index): the UPDATE record of an in-place
	// change carries the old and the new image and is larger than a page - the only record kind that can be
	seeds = append(seeds, &CrashSeed{Name: "long-rows/mem128", MemKB: 128, Tables: []TableDef{crashHugeT},
		Stmts: []*Stmt{{Kind: "insert", Table: "t", Cols: []string{"k", "v"}, Rows: [][]any{{int32(1), bigStr("L1", 2100)}}},
			{Kind: "insert", Table: "t", Cols: []string{"k", "v"}, Rows: [][]any{{int32(2), "a2"}}}}})
	return seeds
}

var crashHugeT = TableDef{Name: "t", Cols: []ColDef{{"k", TInt}, {"v", TStr}}, Idx: []string{"skip", ""}}

func crashHugeRows(from, n int) [][]any {
	var rows [][]any
	for i := from; i < from+n; i++ {
		rows = append(rows, []any{int32(100 + i), bigStr(fmt.Sprintf("h%03d", i), 3800)})
	}
	return rows
}

// crashAlphabet returns the DML statements a transaction may issue; values are unique per (txn, op).
func crashAlphabet(seed *CrashSeed, txn int) map[string]*Stmt {
	upd := func(col string, val any, k int) *Stmt {
		return &Stmt{Kind: "update", Table: "t", Set: []SetItem{{col, val}}, Where: Leaf{"k", "=", int32(k)}}
	}
	del := func(k int) *Stmt { return &Stmt{Kind: "delete", Table: "t", Where: Leaf{"k", "=", int32(k)}} }
	ins := func(k int, v string) *Stmt {
		return &Stmt{Kind: "insert", Table: "t", Cols: []string{"k", "v"}, Rows: [][]any{{int32(k), v}}}
	}
	tag := fmt.Sprintf("%d", txn)
	if strings.HasPrefix(seed.Name, "huge") {
		kv := []string{"k", "v"}
		return map[string]*Stmt{
			"huge150": {Kind: "insert", Table: "t", Cols: kv, Rows: crashHugeRows(0, 150)}, // ~575 KB of log in one statement
			"huge80a": {Kind: "insert", Table: "t", Cols: kv, Rows: crashHugeRows(0, 80)},
			"huge80b": {Kind: "insert", Table: "t", Cols: kv, Rows: crashHugeRows(80, 80)},
			"del1":    del(1),
		}
	}
	if strings.HasPrefix(seed.Name, "long") {
		return map[string]*Stmt{
			"updLong1": upd("v", bigStr("U"+tag, 2100), 1), // same size, in place: a record of > 4 200 bytes
			"upd2":     upd("v", "b"+tag, 2),
			"ins":      ins(10+txn, "n"+tag),
			"del2":     del(2),
		}
	}
	if strings.HasPrefix(seed.Name, "small") {
		return map[string]*Stmt{
			"ins":     ins(10+txn, "n"+tag),
			"insBig":  ins(20+txn, bigStr("B"+tag, 600)),
			"upd1":    upd("v", "b"+tag, 1),                     // same size, in place
			"grow2":   upd("v", bigStr("g"+tag, 40), 2),         // grows inside the page
			"shrink3": upd("v", "", 3),                          // shrinks: delete + insert
			"del2":    del(2),
			"del1":    del(1),
			"key3":    upd("k", int32(30+txn), 3),               // key change
		}
	}
	return map[string]*Stmt{
		"ins":    ins(10+txn, "n"+tag),
		"insBig": ins(20+txn, bigStr("B"+tag, 600)),                      // allocates / uses the next page
		"upd1":   upd("v", bigStr("u"+tag, 655), 1),                      // same size, in place
		"reloc2": upd("v", bigStr("R"+tag, 700), 2),                      // does not fit any more: relocates to another page
		"del3":   del(3),
		"del1":   del(1),
		"key4":   upd("k", int32(30+txn), 4),
	}
}

type crashProg struct {
	Ops []string
	End string // commit | abort
}

// crashPrograms: quick = every single-statement program; thorough adds two-statement programs.
func crashPrograms(seed *CrashSeed, maxLen int) []crashProg {
	var names []string
	for n := range crashAlphabet(seed, 1) {
		names = append(names, n)
	}
	sort.Strings(names)
	var out []crashProg
	var rec func(cur []string)
	rec = func(cur []string) {
		if len(cur) > 0 {
			for _, e := range []string{"commit", "abort"} {
				out = append(out, crashProg{Ops: append([]string{}, cur...), End: e})
			}
		}
		if len(cur) == maxLen {
			return
		}
		for _, n := range names {
			rec(append(cur, n))
		}
	}
	rec(nil)
	return out
}

// merges enumerates all interleavings of the given op lists (program order kept).
func merges(lists [][]HOp) [][]HOp {
	var out [][]HOp
	pos := make([]int, len(lists))
	total := 0
	for _, l := range lists {
		total += len(l)
	}
	cur := make([]HOp, 0, total)
	var rec func()
	rec = func() {
		if len(cur) == total {
			out = append(out, append([]HOp{}, cur...))
			return
		}
		for i := range lists {
			if pos[i] < len(lists[i]) {
				cur = append(cur, lists[i][pos[i]])
				pos[i]++
				rec()
				pos[i]--
				cur = cur[:len(cur)-1]
			}
		}
	}
	rec()
	return out
}

func progOps(seed *CrashSeed, txn int, p crashProg) []HOp {
	alpha := crashAlphabet(seed, txn)
	ops := []HOp{}
	for i, n := range p.Ops {
		if i == 0 {
			// begin is glued to the first statement (it only appends a BEGIN record)
			ops = append(ops, HOp{Txn: txn, Kind: "begin"})
		}
		ops = append(ops, HOp{Txn: txn, Kind: "stmt", Stmt: alpha[n]})
	}
	ops = append(ops, HOp{Txn: txn, Kind: p.End})
	return ops
}

// glue merges "begin" into the following statement of the same transaction so that interleavings are
// enumerated at statement granularity.
func glueBegin(h []HOp) []HOp { return h }

// crashHistories enumerates the histories of a seed for a tier.
func crashHistories(seed *CrashSeed, thorough bool) [][]HOp {
	var out [][]HOp
	if strings.HasSuffix(seed.Name, "/after-recovery") {
		// single-statement transactions (and a checkpoint at every quiescent position) in the new session
		for _, p := range crashPrograms(seed, 1) {
			h := progOps(seed, 1, p)
			out = append(out, h, append(append([]HOp{}, h...), HOp{Kind: "checkpoint"}), append([]HOp{{Kind: "checkpoint"}}, h...))
		}
		return out
	}
	if strings.HasPrefix(seed.Name, "huge") {
		for _, p := range []crashProg{
			{[]string{"huge150"}, "commit"}, {[]string{"huge150"}, "abort"},
			{[]string{"huge80a", "huge80b"}, "commit"}, {[]string{"del1", "huge150"}, "commit"}, {[]string{"huge80a", "huge80b"}, "abort"},
		} {
			h := progOps(seed, 1, p)
			out = append(out, h, append(append([]HOp{}, h...), HOp{Kind: "checkpoint"}))
		}
		return out
	}
	p1 := crashPrograms(seed, 1)
	p2 := crashPrograms(seed, 2)
	withCkpt := func(h []HOp) {
		out = append(out, h)
		// one forced checkpoint at every position where no transaction is open
		open := 0
		for i := 0; i <= len(h); i++ {
			if open == 0 && i > 0 {
				hc := append(append(append([]HOp{}, h[:i]...), HOp{Kind: "checkpoint"}), h[i:]...)
				out = append(out, hc)
			}
			if i < len(h) {
				switch h[i].Kind {
				case "begin":
					open++
				case "commit", "abort":
					open--
				}
			}
		}
	}
	// one transaction: all programs up to 2 statements
	for _, p := range p2 {
		withCkpt(progOps(seed, 1, p))
	}
	// ... followed by a clean shutdown (crash points inside Shutdown(): the graceful-shutdown record may be
	// on disk while pages are not)
	for _, p := range p2 {
		out = append(out, append(progOps(seed, 1, p), HOp{Kind: "shutdown"}))
	}
	// two transactions, one statement each, all interleavings (begin glued to the first statement)
	for _, a := range p1 {
		for _, b := range p1 {
			la, lb := progOps(seed, 1, a), progOps(seed, 2, b)
			// glue: [begin,stmt] is one unit
			ua := [][]HOp{la[:2], la[2:]}
			ub := [][]HOp{lb[:2], lb[2:]}
			for _, m := range mergeUnits([][][]HOp{ua, ub}) {
				if thorough {
					withCkpt(m)
				} else {
					out = append(out, m)
				}
			}
		}
	}
	if thorough {
		// two transactions: two statements vs one statement
		for _, a := range p2 {
			if len(a.Ops) != 2 {
				continue
			}
			for _, b := range p1 {
				la, lb := progOps(seed, 1, a), progOps(seed, 2, b)
				ua := [][]HOp{la[:2], la[2:3], la[3:]}
				ub := [][]HOp{lb[:2], lb[2:]}
				out = append(out, mergeUnits([][][]HOp{ua, ub})...)
			}
		}
		// three transactions, one statement each, a committed one in the middle of two others
		for _, a := range p1 {
			for _, b := range p1 {
				for _, c := range p1 {
					if a.End == b.End && b.End == c.End {
						continue
					}
					la, lb, lc := progOps(seed, 1, a), progOps(seed, 2, b), progOps(seed, 3, c)
					// fixed nesting: T1 stmt, T2 stmt, T3 stmt, then ends in order 2,1,3 and 3,1,2
					for _, ord := range [][]int{{2, 1, 3}, {3, 1, 2}, {1, 2, 3}} {
						h := append(append(append([]HOp{}, la[:2]...), lb[:2]...), lc[:2]...)
						ends := map[int]HOp{1: la[2], 2: lb[2], 3: lc[2]}
						for _, t := range ord {
							h = append(h, ends[t])
						}
						out = append(out, h)
					}
				}
			}
		}
	}
	return out
}

// mergeUnits interleaves lists of indivisible units.
func mergeUnits(lists [][][]HOp) [][]HOp {
	var out [][]HOp
	pos := make([]int, len(lists))
	var cur []HOp
	var rec func()
	rec = func() {
		done := true
		for i := range lists {
			if pos[i] < len(lists[i]) {
				done = false
				save := len(cur)
				cur = append(cur, lists[i][pos[i]]...)
				pos[i]++
				rec()
				pos[i]--
				cur = cur[:save]
			}
		}
		if done {
			out = append(out, append([]HOp{}, cur...))
		}
	}
	rec()
	return out
}

var crashProbe = &ProbeSpec{
	Insert:   &Stmt{Kind: "insert", Table: "t", Cols: []string{"k", "v"}, Rows: [][]any{{int32(9999), "probe"}}},
	Select:   &Stmt{Kind: "select", Table: "t", Cols: []string{"k", "v"}, Where: Leaf{"k", "=", int32(9999)}},
	IndexSel: map[string]*Stmt{"t": {Kind: "select", Table: "t", Cols: []string{"*"}, Where: And{Leaf{"k", ">=", int32(0)}, Leaf{"k", "<=", int32(9000)}}}},
}

type crashFinding struct {
	Prop   string
	Clause string
	Detail string
}

// judge compares one recovered image with the admissible committed states.
func judge(hr *HistoryRun, p CrashPoint, rc *Recovered) []crashFinding {
	var out []crashFinding
	if rc.Fail != nil {
		kind := "recovery-" + rc.Fail.Kind
		return []crashFinding{{"C01", kind + "@" + rc.Fail.Where, rc.Fail.String()}}
	}
	if rc.ScanErr != "" {
		return []crashFinding{{"C01", "scan-after-restart-failed", rc.ScanErr}}
	}
	cRet, cCall := hr.Counts(p)
	if cCall >= len(hr.States) {
		cCall = len(hr.States) - 1 // the commit never completed in the recorded run (history ended by a failure)
	}
	lo, hi := hr.States[cRet], hr.States[cCall]
	for _, td := range hr.Seed.Tables {
		got := rc.Scan[td.Name]
		gc := got.Canon()
		okLo, okHi := gc == lo.Committed(td.Name).Canon(), gc == hi.Committed(td.Name).Canon()
		if !okLo && !okHi {
			out = append(out, classify(hr, p, td.Name, got, lo, hi, cRet, cCall)...)
		}
		if idx, ok := rc.Index[td.Name]; ok && idx.Canon() != gc {
			prop := "C01"
			out = append(out, crashFinding{prop, "index-disagrees-with-table-after-restart", fmt.Sprintf("table %s: full scan %s, index range scan %s", td.Name, got.Short(), idx.Short())})
		}
	}
	if len(out) == 0 && rc.Probe != "" {
		out = append(out, crashFinding{"C01", "probe-failed", rc.Probe})
	}
	return out
}

// committedBefore returns the set of transactions whose commit returned before p, and those whose
// commit was in progress.
func (hr *HistoryRun) txnStatus(p CrashPoint) (returned, calling map[int]bool) {
	returned, calling = map[int]bool{}, map[int]bool{}
	for i := 0; i < p.N; i++ {
		if hr.Events[i].Kind != 'M' {
			continue
		}
		var t int
		if n, _ := fmt.Sscanf(hr.Events[i].Mark, "commit-return %d", &t); n == 1 {
			returned[t] = true
			delete(calling, t)
		} else if n, _ := fmt.Sscanf(hr.Events[i].Mark, "commit-call %d", &t); n == 1 {
			calling[t] = true
		}
	}
	return
}

func classify(hr *HistoryRun, p CrashPoint, table string, got Rows, lo, hi *Model, cRet, cCall int) []crashFinding {
	returned, calling := hr.txnStatus(p)
	count := func(rs Rows) map[string]int {
		m := map[string]int{}
		for _, r := range rs {
			m[rowKey(r)]++
		}
		return m
	}
	g, l, h := count(got), count(lo.Committed(table)), count(hi.Committed(table))
	older := map[string]bool{}
	for j := 0; j < cRet; j++ {
		for _, r := range hr.States[j].Committed(table) {
			older[rowKey(r)] = true
		}
	}
	writer := map[string]int{}
	for t, imgs := range hr.TxnWrites {
		for _, im := range imgs {
			if strings.HasPrefix(im, table+"|") {
				writer[strings.TrimPrefix(im, table+"|")] = t
			}
		}
	}
	touched := map[string]int{}
	for t, imgs := range hr.TxnTouched {
		for _, im := range imgs {
			if strings.HasPrefix(im, table+"|") {
				touched[strings.TrimPrefix(im, table+"|")] = t
			}
		}
	}
	var c01, c02 []string
	add := func(prop *[]string, s string) { *prop = append(*prop, s) }
	for k, n := range g {
		if n <= l[k] || n <= h[k] {
			continue
		}
		// extra row image
		if t, ok := writer[k]; ok && !returned[t] {
			if calling[t] {
				add(&c02, fmt.Sprintf("commit-not-atomic: row %s of T%d (commit in progress) is visible but the rest of the transaction is not", k, t))
			} else {
				add(&c02, fmt.Sprintf("loser-visible: row image %s written by T%d, which had not committed, is in the table", k, t))
			}
		} else if older[k] {
			add(&c01, fmt.Sprintf("committed-lost: the table still holds %s, which a committed transaction had replaced or deleted", k))
		} else if l[k] > 0 || h[k] > 0 {
			add(&c01, fmt.Sprintf("duplicate-row: %s appears %d times", k, n))
		} else {
			add(&c01, fmt.Sprintf("garbage-row: %s was never written by anyone", k))
		}
	}
	for k, n := range l {
		if g[k] >= n || h[k] < n && g[k] >= h[k] {
			continue
		}
		// missing committed row
		if t, ok := touched[k]; ok && !returned[t] {
			if calling[t] {
				add(&c02, fmt.Sprintf("commit-not-atomic: committed row %s is gone (T%d's commit was in progress) but the transaction is not fully present", k, t))
			} else {
				add(&c02, fmt.Sprintf("loser-effect-visible: committed row %s is missing; T%d, which had not committed, deleted or updated it", k, t))
			}
		} else {
			add(&c01, fmt.Sprintf("committed-lost: committed row %s is missing", k))
		}
	}
	var out []crashFinding
	mk := func(prop string, msgs []string) {
		if len(msgs) == 0 {
			return
		}
		sort.Strings(msgs)
		clause := strings.SplitN(msgs[0], ":", 2)[0]
		out = append(out, crashFinding{prop, clause, fmt.Sprintf("table %s after restart: %s\n  recovered: %s\n  admissible: %s | %s", table, strings.Join(msgs, "; "), got.Short(), lo.Committed(table).Short(), hi.Committed(table).Short())})
	}
	mk("C01", c01)
	mk("C02", c02)
	if len(out) == 0 {
		out = append(out, crashFinding{"C01", "unexplained-difference", fmt.Sprintf("table %s: recovered %s, admissible %s | %s", table, got.Short(), lo.Committed(table).Short(), hi.Committed(table).Short())})
	}
	return out
}

type crashReplay struct {
	Seed    string   `json:"seed"`
	History []string `json:"history"`
	HistIdx int      `json:"history_index"`
	N       int      `json:"events_applied"`
	Cut     int      `json:"torn_at"`
	Pages   []int    `json:"flush_pages_applied"` // page ids of the following flush run that reached the disk
	TornPg  int      `json:"flush_page_torn"`     // page id of the run written partially (-1 none)
	Trace   []string `json:"io_trace"`            // kinds of the first N events (the replay must reproduce them)
	Class   string   `json:"crash_point"`
	Thor    bool     `json:"thorough_enumeration"`
}

func traceSig(hr *HistoryRun, n int) []string {
	var out []string
	for i := 0; i < n && i < len(hr.Events); i++ {
		ev := &hr.Events[i]
		switch ev.Kind {
		case 'M':
			out = append(out, "M:"+ev.Mark)
		case 'P':
			out = append(out, fmt.Sprintf("P:%d", ev.Page))
		case 'L':
			out = append(out, fmt.Sprintf("L:%d", len(ev.Data)))
		case 'G':
			out = append(out, "G")
		case 'T':
			out = append(out, fmt.Sprintf("T:%d", ev.Page))
		}
	}
	return out
}

func mkReplay(hr *HistoryRun, seed *CrashSeed, hi int, p CrashPoint, thor bool) crashReplay {
	rp := crashReplay{Seed: seed.Name, History: hr.Executed, HistIdx: hi, N: p.N, Cut: p.Cut, TornPg: -1, Class: hr.Class(p), Thor: thor, Trace: traceSig(hr, p.N)}
	for _, e := range p.Extra {
		rp.Pages = append(rp.Pages, int(hr.Events[e].Page))
	}
	if p.Torn >= 0 {
		rp.TornPg = int(hr.Events[p.Torn].Page)
	}
	return rp
}

// locate maps a recorded crash point onto a fresh run of the same history (flush order inside a run may
// differ between runs; everything else must be identical).
func (rp *crashReplay) locate(hr *HistoryRun) (CrashPoint, bool) {
	sig := traceSig(hr, rp.N)
	if len(sig) != len(rp.Trace) {
		return CrashPoint{}, false
	}
	for i := range sig {
		if sig[i] != rp.Trace[i] {
			return CrashPoint{}, false
		}
	}
	p := CrashPoint{N: rp.N, Cut: rp.Cut, Torn: -1}
	find := func(pg int) int {
		for i := rp.N; i < len(hr.Events) && hr.Events[i].Kind == 'P'; i++ {
			if int(hr.Events[i].Page) == pg {
				return i
			}
		}
		return -1
	}
	for _, pg := range rp.Pages {
		e := find(pg)
		if e < 0 {
			return p, false
		}
		p.Extra = append(p.Extra, e)
	}
	if rp.TornPg >= 0 {
		p.Torn = find(rp.TornPg)
		if p.Torn < 0 {
			return p, false
		}
	}
	return p, true
}

func crashExplore(c *core.Ctx, prop string) {
	res := c.Res
	seeds := crashSeeds(c.Thorough())
	res.Bound["seeds"] = len(seeds)
	res.Bound["transactions"] = "1-2 (thorough: 1-3), 1-2 statements each, statement-granularity interleavings, one forced checkpoint at every quiescent position"
	res.Bound["crash_points"] = "every prefix of the I/O trace + torn variants of every log write (record boundaries, inside header, inside body) and page write (512/1024/2048/3584 bytes)"
	item := 0
	nHist, nImg := int64(0), int64(0)
	for si, seed := range seeds {
		hs := crashHistories(seed, c.Thorough())
		res.Bound[fmt.Sprintf("histories[%s]", seed.Name)] = len(hs)
		for hi, h := range hs {
			item++
			if !c.Mine(item) {
				continue
			}
			if c.Expired() {
				return
			}
			hr := RunHistory(seed, h)
			nHist++
			res.Op("history")
			if !hr.Conforms() {
				res.Nondet = append(res.Nondet, fmt.Sprintf("I/O trace of history %d/%d does not reproduce the files the disk manager wrote", si, hi))
				hr.Cleanup()
				continue
			}
			if hr.Fail != nil {
				// the forward run itself failed: not a crash-recovery matter (C03/C04/C14 look at this);
				// crash points up to the failure are still valid
				res.Outcome("forward-run-failed:" + hr.Fail.Kind + "@" + hr.Fail.Where)
			}
			res.Traces++
			for _, p := range hr.Points(true, true) {
				if prop == "C01" {
					if cRet, _ := hr.Counts(p); cRet == 0 && false {
						continue
					}
				}
				rc := Recover(hr.ImageAt(p), seed.Tables, seed.MemKB, crashProbe, false)
				nImg++
				res.States++
				res.Transitions++
				fs := judge(hr, p, rc)
				cls := hr.Class(p)
				if len(fs) == 0 {
					res.Outcome("recovered-ok:" + strings.SplitN(cls, ",", 2)[0])
				}
				for _, f := range fs {
					res.Outcome(f.Prop + ":" + f.Clause)
					if f.Prop != prop {
						continue
					}
					clsSig := cls
					parts := strings.Split(cls, ",")
					if parts[2] == "torn" && parts[1] == "page-write" {
						// SamehadaDB has no torn-page protection: one structural finding, whatever it leads to
						clsSig = "torn-page-write"
					} else if strings.HasPrefix(f.Clause, "recovery-") {
						// a restart failure is identified by where it dies and by the kinds of operations, not by the crash point
						clsSig = parts[1] + "," + parts[2]
					}
					sig := fmt.Sprintf("crash/%s/%s/%s", f.Clause, hr.KindList(), clsSig)
					if clsSig == "torn-page-write" {
						sig = "crash/torn-page-write"
					}
					res.Violate(&core.Violation{Property: prop,
						Signature: sig,
						Detail:    fmt.Sprintf("%s\nseed %s; history:\n    %s\ncrash point: %s (%s)", f.Detail, seed.Name, strings.Join(hr.Executed, "\n    "), hr.Describe(p), cls),
						Replay:    mkReplay(hr, seed, hi, p, c.Thorough())})
				}
			}
			if len(res.Samples) < 2 {
				res.Sample(map[string]any{"seed": seed.Name, "history": hr.Executed, "io_events": len(hr.Events), "crash_points": len(hr.Points(true, true))})
			}
			hr.Cleanup()
		}
	}
	res.Extra["histories"] = float64(nHist)
	res.Extra["crash_images"] = float64(nImg)
}

func crashReplayFn(prop string) func(raw json.RawMessage) (string, bool) {
	return func(raw json.RawMessage) (string, bool) {
		var rp crashReplay
		json.Unmarshal(raw, &rp)
		for _, seed := range crashSeeds(rp.Thor) {
			if seed.Name != rp.Seed {
				continue
			}
			hs := crashHistories(seed, rp.Thor)
			if rp.HistIdx >= len(hs) {
				break
			}
			// the order of page writes inside a flush-all is a Go map iteration: re-run until the recorded
			// I/O prefix is reproduced
			var hr *HistoryRun
			var p CrashPoint
			found := false
			for try := 0; try < 200 && !found; try++ {
				hr = RunHistory(seed, hs[rp.HistIdx])
				p, found = rp.locate(hr)
				if !found {
					hr.Cleanup()
				}
			}
			if !found {
				return "the history no longer produces the recorded I/O trace prefix: " + strings.Join(rp.Trace, " "), false
			}
			defer hr.Cleanup()
			rc := Recover(hr.ImageAt(p), seed.Tables, seed.MemKB, crashProbe, false)
			var sb strings.Builder
			fmt.Fprintf(&sb, "seed %s\nhistory:\n    %s\ncrash point: %s (%s)\n", seed.Name, strings.Join(hr.Executed, "\n    "), hr.Describe(p), hr.Class(p))
			bad := false
			for _, f := range judge(hr, p, rc) {
				fmt.Fprintf(&sb, "%s %s: %s\n", f.Prop, f.Clause, f.Detail)
				if f.Prop == prop {
					bad = true
				}
			}
			return sb.String(), bad
		}
		return "seed/history not found", false
	}
}

var crashAssume = []string{
	"A1 crash model: a crash leaves exactly a prefix of the DiskManager call sequence on disk (WriteLog is synced before it returns; WritePage calls reach the file in issue order), optionally with the last write torn",
	"the seed (database creation, CREATE TABLE, seed rows, optional checkpoint) is not part of the crash-point quantifier",
	"explicit transactions through the same call sequence as ExecuteSQLRetValues; checkpoints only while no transaction is open (the checkpoint blocks on open transactions by design); background threads off (H2)",
	"torn page writes are enumerated but identified by their own crash-point class (SamehadaDB has no full-page-write or checksum mechanism)",
}

func init() {
	for _, prop := range []string{"C01", "C02"} {
		prop := prop
		core.Register(&core.Driver{
			Prop: prop,
			Budget: func(tier string) time.Duration {
				if tier == "thorough" {
					return 40 * time.Minute
				}
				return 8 * time.Minute
			},
			Assume: crashAssume,
			Run:    func(c *core.Ctx) { crashExplore(c, prop) },
			Replay: crashReplayFn(prop),
		})
	}
}
