package props

// C09 — a clean shutdown and reopen changes nothing observable.
// Engine A at SQL level: histories of DDL/DML interleaved with Shutdown()+NewSamehadaDB cycles. Oracle:
// a fixed battery (full scan, every point key and every range of the value domain through the index path
// and through the scan path) gives identical answers immediately before Shutdown() and immediately
// after reopen; afterwards the reopened database is driven further and every statement answer is
// compared with the row model ("same guarantees").

import (
	"encoding/json"
	"fmt"
	"strings"
	"time"

	"verif/core"
)

var c09Long = strings.Repeat("L", 600)

func c09Defs() map[string]TableDef {
	return map[string]TableDef{
		"t1": {Name: "t1", Cols: []ColDef{{"a", TInt}, {"s", TStr}}},
		"t2": {Name: "t2", Cols: []ColDef{{"b", TInt}, {"f", TFloat}}},
	}
}

func c09Stmts() []*Stmt {
	ins := func(t string, cols []string, row ...any) *Stmt {
		return &Stmt{Kind: "insert", Table: t, Cols: cols, Rows: [][]any{row}}
	}
	as := []string{"a", "s"}
	bf := []string{"b", "f"}
	return []*Stmt{
		ins("t1", as, int32(1), "x"),
		ins("t1", as, int32(2), "y"),
		ins("t1", as, int32(2), "z"),
		ins("t1", as, int32(3), c09Long),
		{Kind: "update", Table: "t1", Set: []SetItem{{"s", "w"}}, Where: Leaf{"a", "=", int32(2)}},
		{Kind: "update", Table: "t1", Set: []SetItem{{"a", int32(5)}}, Where: Leaf{"a", "=", int32(1)}},
		{Kind: "update", Table: "t1", Set: []SetItem{{"s", c09Long + "M"}}, Where: Leaf{"a", "=", int32(2)}},
		{Kind: "delete", Table: "t1", Where: Leaf{"a", "=", int32(2)}},
		{Kind: "delete", Table: "t1", Where: Leaf{"s", "=", "x"}},
		ins("t2", bf, int32(1), float32(1.5)),
		ins("t2", bf, int32(2), float32(2.25)),
		{Kind: "delete", Table: "t2", Where: Leaf{"b", "=", int32(1)}},
	}
}

// c09Wide(i) is a 590-byte key unique per i: about six of them fill one skip-list node, so deleting a run
// of them empties index nodes (DeallocatePage) and re-inserting grows the heap over the freed page ids.
func c09Wide(i int) string { return fmt.Sprintf("%s%03d", strings.Repeat("W", 587), i) }

func c09WideRows(from, n int) [][]any {
	var rows [][]any
	for i := from; i < from+n; i++ {
		rows = append(rows, []any{int32(i), c09Wide(i)})
	}
	return rows
}

// c09DeallocStmts: the alphabet of the "dealloc" seed (a table whose index spans several nodes): bulk
// delete (empties index nodes), bulk insert (allocates heap and index pages, reusing deallocated ids),
// and single-row statements in between.
func c09DeallocStmts() []*Stmt {
	as := []string{"a", "s"}
	return []*Stmt{
		{Kind: "delete", Table: "t1", Where: Leaf{"a", ">=", int32(12)}},
		{Kind: "insert", Table: "t1", Cols: as, Rows: c09WideRows(30, 8)},
		{Kind: "insert", Table: "t1", Cols: as, Rows: [][]any{{int32(1), "x"}}},
		{Kind: "delete", Table: "t1", Where: Leaf{"a", "<=", int32(11)}},
		{Kind: "update", Table: "t1", Set: []SetItem{{"s", "w"}}, Where: Leaf{"a", "=", int32(30)}},
	}
}

func c09DeallocDomain(td *TableDef, c ColDef) []any {
	switch c.Name {
	case "a":
		return []any{int32(1), int32(10), int32(12), int32(23), int32(30), int32(37)}
	case "s":
		return []any{"w", "x", c09Wide(10), c09Wide(23), c09Wide(37)}
	}
	return nil
}

func c09Domain(td *TableDef, c ColDef) []any {
	switch c.Name {
	case "a":
		return []any{int32(1), int32(2), int32(3), int32(5)}
	case "s":
		return []any{"w", "x", "y", "z", c09Long}
	case "b":
		return []any{int32(1), int32(2)}
	case "f":
		return []any{float32(1.5), float32(2.25)}
	}
	return nil
}

type c09Params struct {
	MemKB int    `json:"mem_kb"`
	Seed  string `json:"seed"`
}

func c09CfgNoFilter(p c09Params) *WorldCfg {
	cfg := c09Cfg(p)
	cfg.Filter, cfg.Before, cfg.After = nil, nil, nil
	return cfg
}

func c09Cfg(p c09Params) *WorldCfg {
	cfg := &WorldCfg{Prop: "C09", Driver: "c09", MemKB: p.MemKB, Defs: c09Defs(), Stmts: c09Stmts()}
	switch p.Seed {
	case "t1-hash":
		// hash index on the key column (catalog API); keys whose home is the LAST slot of a block page of the
		// linear-probe table: removing them makes the probe cross into the next block page. The optimizer
		// cannot use a hash index: DML goes through scan-path predicates, lookups through the plan API.
		td := cfg.Defs["t1"]
		td.Idx = []string{"hash", ""}
		cfg.Defs["t1"] = td
		cfg.SeedCreate = []string{"t1"}
		bk := c17HashBoundaryKeys()
		as := []string{"a", "s"}
		cfg.SeedStmts = []*Stmt{{Kind: "insert", Table: "t1", Cols: as, Rows: [][]any{{bk[0], "x"}, {bk[1], "y"}, {int32(7), "z"}}}}
		cfg.Stmts = []*Stmt{
			{Kind: "delete", Table: "t1", Where: ForceScan(Leaf{"a", "=", bk[0]})},
			{Kind: "delete", Table: "t1", Where: ForceScan(Leaf{"a", "=", bk[1]})},
			{Kind: "delete", Table: "t1", Where: ForceScan(Leaf{"a", "=", int32(7)})},
			{Kind: "insert", Table: "t1", Cols: as, Rows: [][]any{{bk[2], "w"}}},
			{Kind: "insert", Table: "t1", Cols: as, Rows: [][]any{{bk[0], "again"}}},
			// forty rows of 200 bytes: the heap needs new pages (after a reopen: page ids handed out by the
			// reopened disk manager) and the keys spread over all block pages of the hash table, also those no
			// statement has touched since the table was created
			{Kind: "insert", Table: "t1", Cols: as, Rows: c09HashSpreadRows()},
		}
	case "t1-btree":
		// the B-link tree keeps its own pages and writes its state out at shutdown (catalog API table:
		// B-tree index on the key column, none on the other)
		td := cfg.Defs["t1"]
		td.Idx = []string{"btree", ""}
		cfg.Defs["t1"] = td
		cfg.SeedCreate = []string{"t1"}
		cfg.SeedStmts = []*Stmt{{Kind: "insert", Table: "t1", Cols: []string{"a", "s"}, Rows: [][]any{{int32(1), "x"}, {int32(3), "q"}}}}
	case "t1-long":
		// rows of 2 100 bytes (no index on the wide column): the UPDATE record of an in-place change carries both
		// images and is larger than a page; a multi-row UPDATE puts an earlier record of the same transaction
		// in front of it
		td := cfg.Defs["t1"]
		td.Idx = []string{"skip", ""}
		cfg.Defs["t1"] = td
		cfg.SeedCreate = []string{"t1"}
		as := []string{"a", "s"}
		cfg.SeedStmts = []*Stmt{{Kind: "insert", Table: "t1", Cols: as, Rows: [][]any{{int32(1), "short1"}, {int32(2), bigStr("L2", 2100)}, {int32(3), bigStr("L3", 2100)}}}}
		cfg.Stmts = []*Stmt{
			{Kind: "update", Table: "t1", Set: []SetItem{{"s", bigStr("U", 2100)}}, Where: Leaf{"a", ">=", int32(1)}},
			{Kind: "update", Table: "t1", Set: []SetItem{{"s", bigStr("V", 2100)}}, Where: Leaf{"a", "=", int32(2)}},
			{Kind: "insert", Table: "t1", Cols: as, Rows: [][]any{{int32(4), "short"}}},
			{Kind: "delete", Table: "t1", Where: Leaf{"a", "=", int32(1)}},
		}
	case "t1":
		cfg.SeedCreate = []string{"t1"}
	case "t1-2pages":
		cfg.SeedCreate = []string{"t1"}
		for i := 0; i < 7; i++ {
			cfg.SeedStmts = append(cfg.SeedStmts, &Stmt{Kind: "insert", Table: "t1", Cols: []string{"a", "s"}, Rows: [][]any{{int32(i % 4), c09Long}}})
		}
	}
	domain := c09Domain
	if p.Seed == "t1-hash" {
		domain = func(td *TableDef, c ColDef) []any {
			if c.Name == "a" {
				return append(append([]any{}, c17HashBoundaryKeys()...), int32(7), int32(1000), int32(1017), int32(1039))
			}
			return nil
		}
	}
	if p.Seed == "t1-long" {
		domain = func(td *TableDef, c ColDef) []any {
			if c.Name == "a" {
				return []any{int32(1), int32(2), int32(3), int32(4)}
			}
			return nil
		}
	}
	if p.Seed == "dealloc" {
		cfg.SeedCreate = []string{"t1"}
		cfg.SeedStmts = []*Stmt{{Kind: "insert", Table: "t1", Cols: []string{"a", "s"}, Rows: c09WideRows(10, 14)}}
		cfg.Stmts = c09DeallocStmts()
		domain = c09DeallocDomain
	}
	cfg.Ops = func(w *World) []string {
		var ops []string
		for i, s := range w.cfg.Stmts {
			if w.HasTable(s.Table) {
				ops = append(ops, fmt.Sprintf("sql:0:%d", i))
			}
		}
		for _, t := range []string{"t1", "t2"} {
			if p.Seed == "dealloc" || p.Seed == "t1-btree" || p.Seed == "t1-hash" || p.Seed == "t1-long" {
				break
			}
			if t == "t2" && w.cfg.MemKB < 64 {
				continue // a 32 KB pool cannot hold the permanently pinned index pages of two tables (the engine panics by design)
			}
			if !w.HasTable(t) {
				ops = append(ops, "create:"+t)
				break
			}
		}
		ops = append(ops, "restart:clean")
		return ops
	}
	cfg.Filter = restartFilter(func() *WorldCfg { return c09CfgNoFilter(p) })
	var before map[string]string
	cfg.Before = func(w *World, op string) *core.Violation {
		if op == "restart:clean" {
			a, v := w.Answers(domain, true)
			if v != nil {
				// the battery itself fails before the shutdown: not a C09 matter, end this branch quietly
				before = nil
				return nil
			}
			before = a
		}
		return nil
	}
	cfg.After = func(w *World, op string) *core.Violation {
		if op != "restart:clean" || before == nil {
			return nil
		}
		after, v := w.Answers(domain, true)
		if v != nil {
			v.Signature = "c09/after-reopen/" + strings.TrimPrefix(v.Signature, "c09/")
			return v
		}
		if q, b, a, diff := DiffAnswers(before, after); diff {
			path := "index-path"
			if !strings.Contains(q, "WHERE") {
				path = "full-scan"
			} else if strings.Contains(q, " OR ") {
				path = "scan-path"
			}
			return w.viol("answer-changed-by-clean-restart/"+path, op, fmt.Sprintf("%s\n  before shutdown: %q\n  after reopen   : %q", q, b, a))
		}
		w.last = "same-answers"
		return nil
	}
	return cfg
}

func init() {
	core.Register(&core.Driver{
		Prop: "C09",
		Budget: func(tier string) time.Duration {
			if tier == "thorough" {
				return 25 * time.Minute
			}
			return 150 * time.Second
		},
		Assume: []string{
			"auto-commit statements through the same path as SamehadaDB.ExecuteSQLRetValues; background threads off (hook H2)",
			"tables created through SQL DDL (skip-list index on every column); buffer pool 32 KB (minimal that opens) and 128 KB",
			"the before/after comparison is differential (no reference model involved); answers of further statements after reopen are compared with the row model",
		},
		Run: func(c *core.Ctx) {
			depth := 4
			if c.Thorough() {
				depth = 6
			}
			type ms struct {
				mem  int
				seed string
			}
			var combos []ms
			for _, mem := range []int{128, 32} {
				for _, seed := range []string{"empty", "t1", "t1-2pages"} {
					combos = append(combos, ms{mem, seed})
				}
			}
			// "dealloc": with 10 or 12 frames the pages of emptied index nodes are evicted and their ids are
			// reused for heap pages; with 32 frames they stay flagged in the pool until the restart
			combos = append(combos, ms{40, "dealloc"}, ms{48, "dealloc"}, ms{128, "dealloc"}, ms{128, "t1-btree"}, ms{128, "t1-hash"}, ms{128, "t1-long"})
			for _, cb := range combos {
				p := c09Params{MemKB: cb.mem, Seed: cb.seed}
				sc := core.SeqConfig{Name: fmt.Sprintf("c09/%s/mem%d", cb.seed, cb.mem), Params: p,
					Fresh: func() core.Instance { return NewWorld(c09Cfg(p)) }, MaxDepth: depth, SplitDepth: 1}
				if cb.seed == "dealloc" && cb.mem < 64 {
					// a second search from a state four bulk statements further on: index nodes emptied, their
					// ids reused, emptied again - some of them never written to the db file
					sc.Seeds = [][]string{nil, {"sql:0:0", "sql:0:1", "sql:0:3", "sql:0:1"}}
				}
				core.BFS(c, sc)
			}
		},
		Replay: func(raw json.RawMessage) (string, bool) {
			var rp struct {
				History []string  `json:"history"`
				Params  c09Params `json:"params"`
			}
			json.Unmarshal(raw, &rp)
			return core.ReplayHistory(func() core.Instance { return NewWorld(c09Cfg(rp.Params)) }, rp.History)
		},
	})
}

func c09HashSpreadRows() [][]any {
	var rows [][]any
	for i := 0; i < 40; i++ {
		rows = append(rows, []any{int32(1000 + i), bigStr(fmt.Sprintf("h%02d", i), 200)})
	}
	return rows
}
