package props

// World = one real SamehadaDB + the reference row model, driven by a small op language. It is the
// core.Instance behind the SQL-level Engine A drivers (C03, C07, C09, C10, C14).
//
// ops:  create:<table>            CREATE TABLE through SQL (skip-list index on every column)
//       sql:<txn>:<stmt-id>       statement from the catalogue; txn 0 = auto-commit, else an open txn
//       begin:<txn> commit:<txn> abort:<txn>
//       restart:clean | restart:crash | checkpoint
//
// Every statement answer is compared with the model; property-specific oracles hook in via Cfg.After.

import (
	"hash/crc32"
	"fmt"
	"os"
	"sort"
	"strconv"
	"strings"

	"github.com/ryogrid/SamehadaDB/lib/execution/expression"
	"github.com/ryogrid/SamehadaDB/lib/execution/plans"
	"github.com/ryogrid/SamehadaDB/lib/storage/access"
	"github.com/ryogrid/SamehadaDB/lib/types"

	"verif/core"
)

type WorldCfg struct {
	Prop   string
	Driver string
	MemKB  int
	Defs   map[string]TableDef
	Stmts  []*Stmt
	// Seed statements executed (auto-commit) right after creation; not part of the history.
	SeedCreate []string
	SeedStmts  []*Stmt
	// Ops lists the enabled operations for the current world (driver-specific alphabet).
	Ops func(w *World) []string
	// Before is called before an op is applied (to capture observations); After is the property oracle,
	// called after every successfully applied op.
	Before func(w *World, op string) *core.Violation
	After  func(w *World, op string) *core.Violation
	// StrictAbort: an engine abort of a statement in a history without any concurrent transaction is
	// reported (no other transaction can be the reason).
	KeyExtra func(w *World) string
	// OnStmt observes every statement that completed without an engine abort (its transaction, the
	// statement, the engine's answer).
	OnStmt func(w *World, txn int, s *Stmt, r StmtResult)
	// NoModelCompare switches the per-statement comparison with the model off (drivers with an oracle
	// of their own over whole histories).
	NoModelCompare bool
	// Custom handles driver-specific ops; handled=false falls through to the built-in op language.
	Custom func(w *World, op string) (handled bool, v *core.Violation)
	// Filter may reclassify a violation (e.g. mark it Ignore when it does not belong to the property).
	Filter func(w *World, op string, v *core.Violation) *core.Violation
}

type World struct {
	cfg    *WorldCfg
	dir    string
	db     *DB
	model  *Model
	txns   map[int]*Txn
	last   string
	nRest  int
	closed bool
	hist   []string
}

func NewWorld(cfg *WorldCfg) *World {
	w := &World{cfg: cfg, model: NewModel(), txns: map[int]*Txn{}}
	w.dir = NewDir(strings.ToLower(cfg.Driver))
	db, f := OpenDB(w.dir+"/d", cfg.MemKB)
	if f != nil {
		panic("cannot create database: " + f.String())
	}
	w.db = db
	for _, t := range cfg.SeedCreate {
		td := cfg.Defs[t]
		if f := w.db.CreateTable(td); f != nil {
			panic("seed create: " + f.String())
		}
		w.model.Create(td)
	}
	for _, s := range cfg.SeedStmts {
		w.db.MustAuto(s.SQL())
		w.model.Apply(0, s)
	}
	return w
}

func (w *World) Close() {
	if w.closed {
		return
	}
	w.closed = true
	if w.db != nil {
		w.db.Kill()
	}
	os.RemoveAll(w.dir)
}

func (w *World) LastOutcome() string { return w.last }
func (w *World) Enabled() []string   { return w.cfg.Ops(w) }

func (w *World) viol(clause, op, detail string) *core.Violation {
	return &core.Violation{Property: w.cfg.Prop, Signature: w.cfg.Driver + "/" + clause, Detail: op + ": " + detail}
}

func (w *World) OpenTxns() []int {
	var ids []int
	for id := range w.txns {
		ids = append(ids, id)
	}
	sort.Ints(ids)
	return ids
}

func (w *World) HasTable(name string) bool { _, ok := w.model.Tables[name]; return ok }

func (w *World) Apply(op string) *core.Violation {
	w.hist = append(w.hist, op)
	v := w.apply(op)
	if v != nil && w.cfg.Filter != nil {
		return w.cfg.Filter(w, op, v)
	}
	return v
}

func (w *World) apply(op string) *core.Violation {
	w.last = "ok"
	parts := strings.SplitN(op, ":", 3)
	failed := func(f *Failure) *core.Violation {
		return w.viol("call-failed/"+f.Kind+"@"+f.Where, op, f.String())
	}
	if w.cfg.Before != nil {
		if v := w.cfg.Before(w, op); v != nil {
			return v
		}
	}
	if w.cfg.Custom != nil {
		if handled, v := w.cfg.Custom(w, op); handled {
			if v != nil {
				return v
			}
			if w.cfg.After != nil {
				return w.cfg.After(w, op)
			}
			return nil
		}
	}
	switch parts[0] {
	case "create":
		td := w.cfg.Defs[parts[1]]
		if f := w.db.CreateTable(td); f != nil {
			return failed(f)
		}
		w.model.Create(td)
	case "begin":
		id, _ := strconv.Atoi(parts[1])
		w.txns[id] = w.db.Begin()
	case "commit", "abort":
		id, _ := strconv.Atoi(parts[1])
		t := w.txns[id]
		delete(w.txns, id)
		var f *Failure
		if parts[0] == "commit" {
			f = t.Commit()
			w.model.Commit(id)
		} else {
			f = t.Abort()
			w.model.Abort(id)
		}
		if f != nil {
			return failed(f)
		}
	case "sql":
		id, _ := strconv.Atoi(parts[1])
		si, _ := strconv.Atoi(parts[2])
		s := w.cfg.Stmts[si]
		if v := w.runStmt(op, id, s); v != nil {
			return v
		}
	case "checkpoint":
		if f := w.db.Checkpoint(); f != nil {
			return failed(f)
		}
	case "restart":
		if len(w.txns) != 0 {
			panic("restart with open transactions is not part of this op language")
		}
		if parts[1] == "clean" {
			if f := w.db.Shutdown(); f != nil {
				return failed(f)
			}
		} else {
			w.db.Kill()
		}
		db, f := OpenDB(w.dir+"/d", w.cfg.MemKB)
		if f != nil {
			w.db = nil
			return w.viol("restart-failed/"+parts[1]+"/"+f.Kind+"@"+f.Where, op, f.String())
		}
		w.db = db
		w.nRest++
	default:
		panic("bad op " + op)
	}
	if w.cfg.After != nil {
		return w.cfg.After(w, op)
	}
	return nil
}

// runStmt executes s in txn id (0 = auto-commit) and compares with the model.
func (w *World) runStmt(op string, id int, s *Stmt) *core.Violation {
	var r StmtResult
	if id == 0 {
		r = w.db.Auto(s.SQL())
	} else {
		r = w.txns[id].Exec(s.SQL())
	}
	sql := s.SQL()
	if r.Fail != nil {
		return w.viol("call-failed/"+r.Fail.Kind+"@"+r.Fail.Where, op, sql+" -> "+r.Fail.String())
	}
	if r.Err != "" {
		return w.viol("statement-refused/"+s.Kind, op, sql+" -> "+r.Err)
	}
	if r.Aborted {
		w.last = "engine-abort"
		if id != 0 {
			t := w.txns[id]
			delete(w.txns, id)
			if f := t.Abort(); f != nil {
				return w.viol("call-failed/"+f.Kind+"@"+f.Where, op, "abort after engine abort: "+f.String())
			}
			w.model.Abort(id)
		}
		return nil
	}
	if w.cfg.OnStmt != nil {
		w.cfg.OnStmt(w, id, s, r)
	}
	eff := w.model.Apply(id, s)
	if w.cfg.NoModelCompare {
		return nil
	}
	if eff.Conflict {
		return w.viol("dirty-write", op, sql+" succeeded although it writes a row with another transaction's uncommitted change")
	}
	if s.Kind == "select" {
		if r.Rows.Canon() != eff.Rows.Canon() {
			return w.viol("wrong-answer/"+s.Kind, op, fmt.Sprintf("%s\n  engine: %s\n  model : %s", sql, r.Rows.Short(), eff.Rows.Short()))
		}
		if len(eff.Rows) > 0 {
			w.last = "rows"
		} else {
			w.last = "empty"
		}
	} else if s.Kind != "insert" {
		w.last = fmt.Sprintf("matched%d", min(eff.Matched, 2))
	}
	return nil
}

// ---- observation battery --------------------------------------------------------------------------

// Query runs an auto-commit query and returns its rows (or a violation if the call itself fails).
func (w *World) Query(sql string) (Rows, *core.Violation) {
	r := w.db.Auto(sql)
	if r.Fail != nil {
		return nil, w.viol("call-failed/"+r.Fail.Kind+"@"+r.Fail.Where, "battery", sql+" -> "+r.Fail.String())
	}
	if r.Err != "" {
		return nil, w.viol("battery-refused", "battery", sql+" -> "+r.Err)
	}
	if r.Aborted {
		return nil, w.viol("battery-aborted", "battery", sql+" was aborted although no other transaction is active")
	}
	return r.Rows, nil
}

// Battery compares, for every table, full scan, every point key and every range of the value domain
// through the index path (P) and through the scan path (P OR P) with the committed model state.
// Requires that no transaction is open. domain maps column type to the probe values.
func (w *World) Battery(tag string, domain func(td *TableDef, col ColDef) []any, ranges bool) *core.Violation {
	for _, name := range w.model.Order {
		t := w.model.Tables[name]
		td := &t.Def
		check := func(sel *Stmt) *core.Violation {
			want := w.model.Apply(0, sel).Rows
			got, v := w.Query(sel.SQL())
			if v != nil {
				return v
			}
			if got.Canon() != want.Canon() {
				path := "index-path"
				if sel.Where == nil {
					path = "full-scan"
				} else if sel.Where.HasOr() {
					path = "scan-path"
				}
				return w.viol(tag+"/"+path, "battery", fmt.Sprintf("%s\n  engine: %s\n  model : %s", sel.SQL(), got.Short(), want.Short()))
			}
			return nil
		}
		if v := check(&Stmt{Kind: "select", Table: name, Cols: []string{"*"}}); v != nil {
			return v
		}
		for _, c := range td.Cols {
			dom := domain(td, c)
			for _, k := range dom {
				p := Leaf{c.Name, "=", k}
				if v := check(&Stmt{Kind: "select", Table: name, Cols: []string{"*"}, Where: p}); v != nil {
					return v
				}
				if v := check(&Stmt{Kind: "select", Table: name, Cols: []string{"*"}, Where: ForceScan(p)}); v != nil {
					return v
				}
			}
			if ranges {
				for i := range dom {
					for j := i; j < len(dom); j++ {
						p := And{Leaf{c.Name, ">=", dom[i]}, Leaf{c.Name, "<=", dom[j]}}
						if v := check(&Stmt{Kind: "select", Table: name, Cols: []string{"*"}, Where: p}); v != nil {
							return v
						}
					}
				}
			}
		}
	}
	return nil
}

// Answers runs the battery queries and returns query -> canonical answer, without consulting the model
// (differential oracles: before/after a restart, before/after an aborted transaction).
func (w *World) Answers(domain func(td *TableDef, col ColDef) []any, ranges bool) (map[string]string, *core.Violation) {
	out := map[string]string{}
	for _, name := range w.model.Order {
		td := &w.model.Tables[name].Def
		var qs []*Stmt
		qs = append(qs, &Stmt{Kind: "select", Table: name, Cols: []string{"*"}})
		for ci, c := range td.Cols {
			dom := domain(td, c)
			hash := td.Idx != nil && td.Idx[ci] == "hash"
			for _, k := range dom {
				p := Leaf{c.Name, "=", k}
				if hash {
					// a hash index is only reachable through the plan API (the optimizer builds range scans)
					rows, v := w.PointIndex(name, c.Name, k)
					if v != nil {
						return nil, v
					}
					out[fmt.Sprintf("HASH-INDEX LOOKUP %s.%s = %v", name, c.Name, k)] = rows.Canon()
					qs = append(qs, &Stmt{Kind: "select", Table: name, Cols: []string{"*"}, Where: ForceScan(p)})
					continue
				}
				qs = append(qs, &Stmt{Kind: "select", Table: name, Cols: []string{"*"}, Where: p},
					&Stmt{Kind: "select", Table: name, Cols: []string{"*"}, Where: ForceScan(p)})
			}
			if ranges && !hash {
				for i := range dom {
					for j := i; j < len(dom); j++ {
						qs = append(qs, &Stmt{Kind: "select", Table: name, Cols: []string{"*"}, Where: And{Leaf{c.Name, ">=", dom[i]}, Leaf{c.Name, "<=", dom[j]}}})
					}
				}
			}
		}
		for _, q := range qs {
			rows, v := w.Query(q.SQL())
			if v != nil {
				return nil, v
			}
			out[q.SQL()] = rows.Canon()
		}
	}
	return out, nil
}

// PointIndex looks key up through the index of table.col with a PointScanWithIndex plan (plan API).
func (w *World) PointIndex(table, col string, key any) (Rows, *core.Violation) {
	var res StmtResult
	t := w.db.Begin()
	f := guard(func() {
		cat := w.db.Cat()
		tm := cat.GetTableByName(table)
		sc := tm.Schema()
		var v types.Value
		switch x := key.(type) {
		case int32:
			v = types.NewInteger(x)
		case float32:
			v = types.NewFloat(x)
		case string:
			v = types.NewVarchar(x)
		}
		colVal := expression.MakeColumnValueExpression(sc, 0, table+"."+col)
		cmp := expression.NewComparison(colVal, expression.NewConstantValue(v, v.ValueType()), expression.Equal, types.Boolean)
		plan := plans.NewPointScanWithIndexPlanNode(cat, sc, cmp.(*expression.Comparison), tm.OID())
		res = t.ExecPlan(plan)
	})
	if f == nil {
		f = res.Fail
	}
	if f != nil {
		return nil, w.viol("call-failed/"+f.Kind+"@"+f.Where, "battery", fmt.Sprintf("index lookup %s.%s = %v -> %s", table, col, key, f.String()))
	}
	if res.Aborted {
		t.Abort()
		return nil, w.viol("battery-aborted", "battery", fmt.Sprintf("index lookup %s.%s = %v was aborted although no other transaction is active", table, col, key))
	}
	if f := t.Commit(); f != nil {
		return nil, w.viol("call-failed/"+f.Kind+"@"+f.Where, "battery", f.String())
	}
	return res.Rows, nil
}

func toValue(key any) types.Value {
	switch x := key.(type) {
	case int32:
		return types.NewInteger(x)
	case float32:
		return types.NewFloat(x)
	case string:
		return types.NewVarchar(x)
	}
	panic("no value")
}

// IndexRange reads table through the index on col with a RangeScanWithIndex plan (plan API, so the index
// is used whatever the optimizer would choose); lo/hi nil = open end. Rows come back in index order.
func (w *World) IndexRange(table, col string, lo, hi any) (Rows, *core.Violation) {
	var res StmtResult
	t := w.db.Begin()
	f := guard(func() {
		cat := w.db.Cat()
		tm := cat.GetTableByName(table)
		sc := tm.Schema()
		var lov, hiv *types.Value
		if lo != nil {
			v := toValue(lo)
			lov = &v
		}
		if hi != nil {
			v := toValue(hi)
			hiv = &v
		}
		plan := plans.NewRangeScanWithIndexPlanNode(cat, sc, tm.OID(), int32(sc.GetColIndex(table+"."+col)), nil, lov, hiv)
		res = t.ExecPlan(plan)
	})
	if f == nil {
		f = res.Fail
	}
	what := fmt.Sprintf("index range scan %s.%s [%v,%v]", table, col, lo, hi)
	if f != nil {
		return nil, w.viol("call-failed/"+f.Kind+"@"+f.Where, "battery", what+" -> "+f.String())
	}
	if res.Aborted {
		t.Abort()
		return nil, w.viol("index-scan-aborted", "battery", what+" was aborted although no other transaction is active (the index points to a row that is not there)")
	}
	if f := t.Commit(); f != nil {
		return nil, w.viol("call-failed/"+f.Kind+"@"+f.Where, "battery", f.String())
	}
	return res.Rows, nil
}

// DiffAnswers returns the first query whose answer differs.
func DiffAnswers(a, b map[string]string) (string, string, string, bool) {
	var qs []string
	for q := range a {
		qs = append(qs, q)
	}
	sort.Strings(qs)
	for _, q := range qs {
		if a[q] != b[q] {
			return q, a[q], b[q], true
		}
	}
	return "", "", "", false
}

// ---- state key --------------------------------------------------------------------------------------

// HeapLayout renders the physical layout of every table heap: page chain and the slot array of every
// page (offset, size incl. delete mark), read through the buffer pool. LSNs are left out.
func (w *World) HeapLayout() string {
	var sb strings.Builder
	bpm := w.db.BPM()
	tables := w.db.Cat().GetAllTables()
	sort.Slice(tables, func(i, j int) bool { return tables[i].OID() < tables[j].OID() })
	for _, tm := range tables {
		fmt.Fprintf(&sb, "T%d:%s@", tm.OID(), *tm.GetTableName())
		pid := tm.Table().GetFirstPageID()
		for n := 0; pid.IsValid() && n < 64; n++ {
			pg := bpm.FetchPage(pid)
			if pg == nil {
				fmt.Fprintf(&sb, "p%d:unreadable;", pid)
				break
			}
			tp := access.CastPageAsTablePage(pg)
			cnt := tp.GetTupleCount()
			fmt.Fprintf(&sb, "p%d[fsp%d", pid, tp.GetFreeSpacePointer())
			for s := uint32(0); s < cnt && s < 512; s++ {
				off, sz := tp.GetTupleOffsetAtSlot(s), tp.GetTupleSize(s)
				fmt.Fprintf(&sb, " %d/%x", off, sz)
				// the bytes of the row too: an engine state whose rows differ from the model's (a write that
				// was not rolled back, say) must not be merged with the state the model describes
				if real := access.UnsetDeletedFlag(sz); off != 0 && real != 0 && int(off+real) <= len(tp.Data()) {
					fmt.Fprintf(&sb, "/%08x", crc32.ChecksumIEEE(tp.Data()[off:off+real]))
				}
			}
			sb.WriteString("]")
			next := tp.GetNextPageID()
			bpm.UnpinPage(pid, false)
			pid = next
		}
		sb.WriteString(";")
	}
	return sb.String()
}

// Volatile renders private in-memory state that decides future allocations and that a restart resets:
// table-id and page-id allocators, the heaps' insert cursors, the list of reusable page ids.
func (w *World) Volatile() string {
	var sb strings.Builder
	cat := w.db.Cat()
	fmt.Fprintf(&sb, "nextTid%s ", core.Safe("Catalog.nextTableID", func() string { return fmt.Sprint(core.Field(cat, "nextTableID").Uint()) }))
	tables := cat.GetAllTables()
	sort.Slice(tables, func(i, j int) bool { return tables[i].OID() < tables[j].OID() })
	for _, tm := range tables {
		fmt.Fprintf(&sb, "last%d:%s ", tm.OID(), core.Safe("TableHeap.lastPageID", func() string { return fmt.Sprint(core.Field(tm.Table(), "lastPageID").Int()) }))
	}
	fmt.Fprintf(&sb, "reuse%s ", core.Safe("BufferPoolManager.reUsablePageList", func() string { return core.DumpV(core.Field(w.db.BPM(), "reUsablePageList")) }))
	dm := w.db.inst().GetDiskManager()
	fmt.Fprintf(&sb, "nextPid%s ", core.Safe("DiskManagerImpl.nextPageID", func() string { return core.DumpV(core.Field(dm, "nextPageID")) }))
	// the lock tables (a read leaves a shared lock behind that no other part of the key shows)
	names := map[int64]string{}
	for id, t := range w.txns {
		names[int64(t.T.GetTransactionID())] = fmt.Sprintf("T%d", id)
	}
	sb.WriteString(core.Safe("LockManager.sharedLockTable/exclusiveLockTable", func() string {
		lm := w.db.inst().GetLockManager()
		var locks []string
		for it := core.Field(lm, "sharedLockTable").MapRange(); it.Next(); {
			var hs []string
			for i := 0; i < it.Value().Len(); i++ {
				if n, ok := names[it.Value().Index(i).Int()]; ok {
					hs = append(hs, n)
				} else {
					hs = append(hs, "ended")
				}
			}
			sort.Strings(hs)
			if len(hs) > 0 {
				locks = append(locks, fmt.Sprintf("S%d.%d=%s", it.Key().Field(0).Int(), it.Key().Field(1).Uint(), strings.Join(hs, ",")))
			}
		}
		for it := core.Field(lm, "exclusiveLockTable").MapRange(); it.Next(); {
			n, ok := names[it.Value().Int()]
			if !ok {
				n = "ended"
			}
			locks = append(locks, fmt.Sprintf("X%d.%d=%s", it.Key().Field(0).Int(), it.Key().Field(1).Uint(), n))
		}
		sort.Strings(locks)
		return strings.Join(locks, " ")
	}))
	return sb.String()
}

func (w *World) ModelKey() string {
	var sb strings.Builder
	for _, name := range w.model.Order {
		t := w.model.Tables[name]
		sb.WriteString(name + "{")
		for _, r := range t.Rows {
			fmt.Fprintf(&sb, "%s/%s/%v/%d;", rowKey(r.Com), rowKey(r.Pend), r.PendDel, r.Owner)
		}
		sb.WriteString("}")
	}
	return sb.String()
}

func (w *World) Key() string {
	if w.db == nil {
		return "dead"
	}
	k := w.ModelKey() + "#" + fmt.Sprint(w.OpenTxns()) + fmt.Sprintf("#r%d#", w.nRest)
	if f := guard(func() { k += w.Volatile() + "#" }); f != nil {
		k += "volatile-unreadable#"
	}
	if f := guard(func() { k += w.HeapLayout() }); f != nil {
		k += "layout-unreadable:" + f.String()
	}
	if w.cfg.KeyExtra != nil {
		k += "#" + w.cfg.KeyExtra(w)
	}
	return k
}

var _ = types.Integer

// restartFilter: for properties about restarts. A failure that happens identically when the same
// history is run WITHOUT its restarts is some other property's business and only ends the branch.
func restartFilter(plainCfg func() *WorldCfg) func(w *World, op string, v *core.Violation) *core.Violation {
	return func(w *World, op string, v *core.Violation) *core.Violation {
		if w.nRest == 0 && !strings.HasPrefix(op, "restart") {
			v.Ignore = true
			return v
		}
		if strings.Contains(v.Signature, "restart") {
			return v
		}
		ref := NewWorld(plainCfg())
		defer ref.Close()
		for _, o := range w.hist {
			if strings.HasPrefix(o, "restart") {
				continue
			}
			if v2 := ref.apply(o); v2 != nil {
				if v2.Signature == v.Signature {
					v.Ignore = true
				}
				break
			}
		}
		return v
	}
}
