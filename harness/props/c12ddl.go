package props

// C12 (with C10's "two different tables never share storage or identifiers"): concurrent callers that
// CREATE different tables and then use them. Nothing serialises DDL in the request manager: two CREATE TABLE
// statements run in two worker goroutines at the same time.

import (
	"fmt"
	"sort"
	"strings"

	"github.com/ryogrid/SamehadaDB/lib/verifshim/vsched"

	"verif/core"
)

type c12DDLClient struct {
	Table string
	Key   int
	Val   string
}

func c12DDLClients(sc *c12Scenario) []c12DDLClient {
	out := []c12DDLClient{{"ta", 1, "a"}, {"tb", 2, "b"}}
	if strings.Contains(sc.Name, "3clients") {
		out = append(out, c12DDLClient{"tc", 3, "c"})
	}
	return out
}

func (sc *c12Scenario) buildDDL(bound int) *core.Scenario {
	clients := c12DDLClients(sc)
	return &core.Scenario{
		Name: "c12/" + sc.Name, Bound: bound, FreeBound: c12Free(bound, len(clients)), Params: sc.Name,
		Setup: func() *core.Harness {
			vsched.CapOverride = nil
			dir := NewDir("c12d")
			db, f := OpenDBKeepSpawns(dir+"/d", 128)
			if f != nil {
				panic(f.String())
			}
			seedT := sqlTable()
			db.MustAuto(seedT.CreateSQL())
			for _, s := range c12Seed() {
				db.MustAuto(s.SQL())
			}
			type call struct {
				sql  string
				err  string
				rows Rows
				done bool
			}
			calls := make([][]*call, len(clients))
			h := &core.Harness{}
			for ci, cl := range clients {
				ci, cl := ci, cl
				td := TableDef{Name: cl.Table, Cols: []ColDef{{"k", TInt}, {"v", TStr}}}
				calls[ci] = []*call{
					{sql: td.CreateSQL()},
					{sql: fmt.Sprintf("INSERT INTO %s(k, v) VALUES (%d, '%s');", cl.Table, cl.Key, cl.Val)},
					{sql: fmt.Sprintf("SELECT k, v FROM %s WHERE k >= 0;", cl.Table)},
				}
				h.Names = append(h.Names, fmt.Sprintf("client%d", ci))
				h.Threads = append(h.Threads, func() {
					for _, c := range calls[ci] {
						err, res := db.SDB.ExecuteSQL(c.sql)
						if err != nil {
							c.err = err.Error()
						}
						c.rows = ifRows(res)
						c.done = true
					}
				})
			}
			h.Check = func(x *core.ExecInfo) (*core.Violation, string) {
				mk := func(clause, detail string) *core.Violation {
					return &core.Violation{Property: "C12", Signature: "reqmgr/ddl/" + clause + "/" + sc.Name, Detail: sc.Name + "\n" + detail}
				}
				if len(x.Panics) > 0 {
					return mk("panic@"+panicSite(x.Panics[0]), strings.Join(x.Panics, "\n")), "panic"
				}
				if x.Deadlock {
					return mk("call-blocks-forever", fmt.Sprintf("no thread can run although calls are outstanding: %v", x.Blocked)), "deadlock"
				}
				if x.Horizon {
					return mk("livelock", "the horizon of scheduling points was reached"), "horizon"
				}
				var label []string
				for ci, cl := range clients {
					want := Rows{{int32(cl.Key), cl.Val}}.Canon()
					for i, c := range calls[ci] {
						if !c.done {
							return mk("call-not-answered", fmt.Sprintf("client%d %s", ci, c.sql)), "not-answered"
						}
						if c.err != "" {
							return mk("call-returned-error", fmt.Sprintf("client%d %s: %s", ci, c.sql, c.err)), "error"
						}
						if i < 2 && len(c.rows) != 0 {
							return mk("result-of-another-statement", fmt.Sprintf("client%d %s returned rows %s", ci, c.sql, c.rows.Short())), "foreign-result"
						}
						if i == 2 && c.rows.Canon() != want {
							return mk("table-shares-rows-or-identity", fmt.Sprintf("client%d created %s, inserted (%d,'%s') and then read %s", ci, cl.Table, cl.Key, cl.Val, c.rows.Short())), "wrong-own-read"
						}
					}
				}
				// afterwards, single-threaded: every table has its own identity, storage and rows
				var fail *core.Violation
				if f := guard(func() {
					oids, firsts := map[uint32]string{}, map[int32]string{}
					for _, name := range append([]string{"t"}, func() (n []string) {
						for _, cl := range clients {
							n = append(n, cl.Table)
						}
						return
					}()...) {
						tm := db.Cat().GetTableByName(name)
						if tm == nil {
							fail = mk("table-unreachable", "table "+name+" is not in the catalog after its CREATE TABLE returned")
							return
						}
						if o, dup := oids[tm.OID()]; dup {
							fail = mk("tables-share-oid", fmt.Sprintf("tables %s and %s both have oid %d", o, name, tm.OID()))
							return
						}
						oids[tm.OID()] = name
						fp := int32(tm.Table().GetFirstPageID())
						if o, dup := firsts[fp]; dup {
							fail = mk("tables-share-storage", fmt.Sprintf("tables %s and %s both start at page %d", o, name, fp))
							return
						}
						firsts[fp] = name
					}
					var ids []int
					for o := range oids {
						ids = append(ids, int(o))
					}
					sort.Ints(ids)
					label = append(label, fmt.Sprint("oids", ids))
					for _, cl := range clients {
						r := db.Auto(fmt.Sprintf("SELECT k, v FROM %s WHERE k >= 0;", cl.Table))
						if r.Fail != nil || r.Err != "" || r.Aborted || r.Rows.Canon() != (Rows{{int32(cl.Key), cl.Val}}).Canon() {
							fail = mk("table-shares-rows-or-identity", fmt.Sprintf("final read of %s: %+v", cl.Table, r))
							return
						}
					}
					r := db.Auto("SELECT k, v FROM t WHERE k >= 0;")
					if r.Fail != nil || r.Err != "" || len(r.Rows) != 4 {
						fail = mk("older-table-disturbed", fmt.Sprintf("final read of t: %+v", r))
					}
				}); f != nil {
					return mk(f.Kind+"@"+f.Where, f.String()), "final-check-failed"
				}
				if fail != nil {
					return fail, "VIOLATION"
				}
				return nil, "ok " + strings.Join(label, " ")
			}
			h.Cleanup = func() {
				db.Kill()
				removeAll(dir)
			}
			return h
		},
	}
}
