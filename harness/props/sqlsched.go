package props

// Engine C at SQL level: a few real goroutines run statements (auto-commit or inside one explicit
// transaction per goroutine) against one real database under the controlled scheduler; every lock /
// latch acquisition of the engine is a scheduling point; schedules are enumerated up to a preemption
// bound. Oracle per schedule (order-based form of C04/C05): no deadlock, no panic, and there is a serial
// order of the COMMITTED transactions, consistent with each goroutine's program order, in which every
// answered statement returns the row-model answer at its position and which yields the final table.
// Written values are unique, so a value of a transaction that never committed, or a hidden committed
// row, cannot be explained by any such order.

import (
	"encoding/json"
	"fmt"
	"sort"
	"strings"

	"verif/core"
)

func sortStrings(s []string) { sort.Strings(s) }

type sqlThread struct {
	Stmts    []*Stmt
	Explicit bool // all statements inside one explicit transaction, then commit
}

type sqlScenario struct {
	Name    string
	Seed    []*Stmt
	Threads []sqlThread
	Bound   int
}

type txnRecord struct {
	thread    int
	stmts     []*Stmt
	answers   []string // canon rows per statement ("" for writes)
	committed bool
	failure   string
}

func sqlTable() TableDef { return TableDef{Name: "t", Cols: []ColDef{{"k", TInt}, {"v", TStr}}} }

func (sc *sqlScenario) describe() string {
	var parts []string
	for i, th := range sc.Threads {
		var ss []string
		for _, s := range th.Stmts {
			ss = append(ss, shortSQL(s.SQL()))
		}
		mode := "auto-commit"
		if th.Explicit {
			mode = "one transaction"
		}
		parts = append(parts, fmt.Sprintf("G%d(%s): %s", i, mode, strings.Join(ss, " ")))
	}
	return strings.Join(parts, " || ")
}

// build returns the scheduler scenario for prop.
func (sc *sqlScenario) build(prop string) *core.Scenario {
	return &core.Scenario{
		Name:   sc.Name,
		Bound:  sc.Bound,
		Params: sc.Name,
		Setup: func() *core.Harness {
			dir := NewDir("sqlc")
			db, f := OpenDB(dir+"/d", 128)
			if f != nil {
				panic(f.String())
			}
			td := sqlTable()
			db.MustAuto(td.CreateSQL())
			for _, s := range sc.Seed {
				db.MustAuto(s.SQL())
			}
			// one record per transaction, in program order per thread
			recs := make([][]*txnRecord, len(sc.Threads))
			h := &core.Harness{}
			for ti := range sc.Threads {
				ti := ti
				th := sc.Threads[ti]
				h.Names = append(h.Names, fmt.Sprintf("G%d", ti))
				h.Threads = append(h.Threads, func() {
					if th.Explicit {
						rec := &txnRecord{thread: ti}
						recs[ti] = append(recs[ti], rec)
						t := db.Begin()
						for _, s := range th.Stmts {
							r := t.Exec(s.SQL())
							if r.Fail != nil {
								rec.failure = r.Fail.String()
								return
							}
							if r.Err != "" {
								rec.failure = "refused: " + r.Err
								return
							}
							if r.Aborted {
								if f := t.Abort(); f != nil {
									rec.failure = f.String()
								}
								return
							}
							rec.stmts = append(rec.stmts, s)
							ans := ""
							if s.Kind == "select" {
								ans = r.Rows.Canon()
							}
							rec.answers = append(rec.answers, ans)
						}
						if f := t.Commit(); f != nil {
							rec.failure = f.String()
							return
						}
						rec.committed = true
						return
					}
					for _, s := range th.Stmts {
						rec := &txnRecord{thread: ti}
						recs[ti] = append(recs[ti], rec)
						r := db.Auto(s.SQL())
						switch {
						case r.Fail != nil:
							rec.failure = r.Fail.String()
							return
						case r.Err != "":
							rec.failure = "refused: " + r.Err
							return
						case r.Aborted:
							continue
						}
						rec.stmts = []*Stmt{s}
						ans := ""
						if s.Kind == "select" {
							ans = r.Rows.Canon()
						}
						rec.answers = []string{ans}
						rec.committed = true
					}
				})
			}
			h.Check = func(x *core.ExecInfo) (*core.Violation, string) {
				sig := func(clause string) string { return "sqlsched/" + clause + "/" + sc.Name }
				mk := func(clause, detail string) *core.Violation {
					return &core.Violation{Property: prop, Signature: sig(clause), Detail: sc.describe() + "\n" + detail}
				}
				if len(x.Panics) > 0 {
					return mk("panic@"+panicSite(x.Panics[0]), strings.Join(x.Panics, "\n")), "panic"
				}
				if x.Deadlock {
					return mk("deadlock", fmt.Sprintf("no thread can run: %v", x.Blocked)), "deadlock"
				}
				if x.Horizon {
					return mk("livelock", "horizon of scheduling points reached"), "horizon"
				}
				var outcome []string
				for ti := range recs {
					for _, r := range recs[ti] {
						if r.failure != "" {
							return mk("statement-failed", fmt.Sprintf("G%d: %s", ti, r.failure)), "failed"
						}
						o := "aborted"
						if r.committed {
							o = "committed[" + strings.Join(r.answers, ";") + "]"
						}
						outcome = append(outcome, fmt.Sprintf("G%d:%s", ti, o))
					}
				}
				// final table, read after the execution (single-threaded again)
				fin := db.Auto("SELECT k, v FROM t WHERE k >= -1000 OR k >= -1000;")
				if fin.Fail != nil || fin.Aborted || fin.Err != "" {
					return mk("final-read-failed", fmt.Sprintf("%+v", fin)), "final-read-failed"
				}
				final := fin.Rows.Canon()
				out := strings.Join(outcome, " ") + " => " + final
				if !sqlSerialOrderExists(sc.Seed, recs, final) {
					return mk("no-serial-order", "answers and final table cannot be explained by any serial order of the committed transactions:\n  "+strings.ReplaceAll(out, "\n", "/")), out
				}
				// nobody is active any more: every index must agree with the table (C07's state, reached here by
				// concurrent committed and aborted work)
				if d := indexBattery(db, "t", fin.Rows, sqlKeyDomain(sc.Seed, recs)); d != "" {
					return mk("index-disagrees-with-table-afterwards", d+"\n  "+strings.ReplaceAll(out, "\n", "/")), "index-mismatch"
				}
				return nil, out
			}
			h.Cleanup = func() {
				db.Kill()
				removeAll(dir)
			}
			return h
		},
	}
}

func panicSite(p string) string {
	if i := strings.Index(p, "\n"); i >= 0 {
		fr := strings.Split(p[i+1:], " | ")
		if len(fr) > 0 {
			f := fr[0]
			if j := strings.Index(f, "("); j > 0 && strings.HasPrefix(f, "github.com") {
				f = f[:strings.LastIndex(f, "(")]
			}
			return strings.TrimPrefix(f, "github.com/ryogrid/SamehadaDB/lib/")
		}
	}
	return "unknown"
}

// sqlSerialOrderExists brute-forces the orders of the committed transactions (program order per thread
// kept) on the row model.
func sqlSerialOrderExists(seed []*Stmt, recs [][]*txnRecord, final string) bool {
	var lists [][]*txnRecord
	for _, rs := range recs {
		var l []*txnRecord
		for _, r := range rs {
			if r.committed {
				l = append(l, r)
			}
		}
		lists = append(lists, l)
	}
	pos := make([]int, len(lists))
	var rec func(m *Model) bool
	rec = func(m *Model) bool {
		done := true
		for i := range lists {
			if pos[i] < len(lists[i]) {
				done = false
				r := lists[i][pos[i]]
				m2 := m.Clone()
				ok := true
				for si, s := range r.stmts {
					eff := m2.Apply(0, s)
					if s.Kind == "select" && eff.Rows.Canon() != r.answers[si] {
						ok = false
						break
					}
				}
				if ok {
					pos[i]++
					if rec(m2) {
						pos[i]--
						return true
					}
					pos[i]--
				}
			}
		}
		if done {
			return m.Committed("t").Canon() == final
		}
		return false
	}
	m := NewModel()
	m.Create(sqlTable())
	for _, s := range seed {
		m.Apply(0, s)
	}
	return rec(m)
}

// ---- scenario catalogues -----------------------------------------------------------------------------------

func sqlSeed3() []*Stmt {
	ins := func(k int, v string) *Stmt {
		return &Stmt{Kind: "insert", Table: "t", Cols: []string{"k", "v"}, Rows: [][]any{{int32(k), v}}}
	}
	return []*Stmt{ins(1, "a1"), ins(2, "a2"), ins(3, "a3")}
}

func sqlScenarios(prop string, thorough bool) []*sqlScenario {
	k := func(v int) any { return int32(v) }
	sel := func(p Pred) *Stmt { return &Stmt{Kind: "select", Table: "t", Cols: []string{"k", "v"}, Where: p} }
	updV := func(tag string, key int) *Stmt {
		return &Stmt{Kind: "update", Table: "t", Set: []SetItem{{"v", tag}}, Where: Leaf{"k", "=", k(key)}}
	}
	point := func(key int) *Stmt { return sel(Leaf{"k", "=", k(key)}) }
	rng := sel(And{Leaf{"k", ">=", k(1)}, Leaf{"k", "<=", k(3)}})
	scan := sel(ForceScan(Leaf{"k", ">=", k(-5)}))
	ins := func(key int, v string) *Stmt {
		return &Stmt{Kind: "insert", Table: "t", Cols: []string{"k", "v"}, Rows: [][]any{{k(key), v}}}
	}
	del := func(key int) *Stmt { return &Stmt{Kind: "delete", Table: "t", Where: Leaf{"k", "=", k(key)}} }
	one := func(s ...*Stmt) sqlThread { return sqlThread{Stmts: s} }
	txn := func(s ...*Stmt) sqlThread { return sqlThread{Stmts: s, Explicit: true} }
	bound := 2
	var out []*sqlScenario
	add := func(name string, th ...sqlThread) {
		out = append(out, &sqlScenario{Name: name, Seed: sqlSeed3(), Threads: th, Bound: bound})
	}
	switch prop {
	case "C04":
		add("update-v||point-read", one(updV("w1", 2)), one(point(2)))
		add("update-v||range-read", one(updV("w1", 2)), one(rng))
		add("update-v||scan-read", one(updV("w1", 2)), one(scan))
		add("insert||range-read", one(ins(2, "n1")), one(rng))
		add("delete||point-read", one(del(2)), one(point(2)))
		add("delete||scan-read", one(del(1)), one(scan))
		add("txn(update,update)||range-read", txn(updV("w1", 1), updV("w1b", 3)), one(rng))
		if thorough {
			add("insert||scan-read", one(ins(4, "n1")), one(scan))
			add("update||update||point-read", one(updV("w1", 2)), one(updV("w2", 2)), one(point(2)))
			add("txn(insert,delete)||range-read", txn(ins(5, "n1"), del(2)), one(rng))
		}
	case "C19":
		// writers side by side on the same heap page / index nodes (no functional oracle: race detection only)
		add("insert||insert", one(ins(7, "n1")), one(ins(8, "n2")))
		add("delete||insert", one(del(1)), one(ins(7, "n2")))
		add("update-grow||insert", one(updV("grow-grow-grow-grow-grow-grow-grow-grow", 2)), one(ins(7, "n2")))
		add("update||update(other row)", one(updV("w1", 1)), one(updV("w2", 3)))
		add("delete||delete(other row)", one(del(1)), one(del(3)))
		add("txn(insert,delete)||txn(update,insert)", txn(ins(7, "n1"), del(1)), txn(updV("w2", 3), ins(8, "n2")))
		add("key-update||range-read", one(&Stmt{Kind: "update", Table: "t", Set: []SetItem{{"k", k(20)}}, Where: Leaf{"k", "=", k(2)}}), one(rng))
		// twelve rows with 600-byte values: the index on v spans several nodes of a handful of entries; two
		// multi-row DELETEs over neighbouring key ranges drain and unlink nodes next to each other (the entries
		// go at commit), a third session inserts into the same region
		var wide []*Stmt
		for i := 1; i <= 12; i++ {
			wide = append(wide, ins(i, bigStr(fmt.Sprintf("w%02d", i), 600)))
		}
		rdel := func(lo, hi int) *Stmt {
			return &Stmt{Kind: "delete", Table: "t", Where: And{Leaf{"k", ">=", k(lo)}, Leaf{"k", "<=", k(hi)}}}
		}
		out = append(out, &sqlScenario{Name: "wide/range-delete||range-delete", Seed: wide, Threads: []sqlThread{one(rdel(1, 6)), one(rdel(7, 12))}, Bound: bound},
			&sqlScenario{Name: "wide/range-delete||insert||range-delete", Seed: wide, Threads: []sqlThread{one(rdel(3, 7)), one(ins(13, bigStr("w06x", 600))), one(rdel(8, 12))}, Bound: bound})
	case "C05":
		add("lost-update", txn(point(2), updV("w1", 2)), txn(point(2), updV("w2", 2)))
		add("write-skew", txn(point(1), updV("w1", 2)), txn(point(2), updV("w2", 1)))
		add("repeatable-read", txn(point(2), point(2)), one(updV("w2", 2)))
		add("range-read-vs-writer", txn(rng, updV("w1", 1)), one(updV("w2", 3)))
		// a writer of two rows next to readers of both rows (a reader that slips past one of the writer's
		// locks sees half of the transaction)
		add("two-row-writer||range-reader", txn(updV("w1", 1), updV("w1b", 3)), one(rng))
		add("two-row-writer||two-point-reader", txn(updV("w1", 1), updV("w1b", 3)), txn(point(3), point(1)))
		if thorough {
			add("scan-read-vs-writer", txn(scan, updV("w1", 1)), one(updV("w2", 3)))
			add("three-way", txn(point(1), updV("w1", 2)), txn(point(2), updV("w2", 3)), txn(point(3), updV("w3", 1)))
		}
	}
	return out
}

func sqlConcurrent(c *core.Ctx, prop string) {
	scs := sqlScenarios(prop, c.Thorough())
	c.Res.Bound["concurrent_scenarios"] = len(scs)
	for _, sc := range scs {
		if c.Thorough() {
			sc.Bound = 3
		}
		if c.Expired() {
			return
		}
		core.ExploreSched(c, sc.build(prop))
	}
}

func sqlConcReplay(raw json.RawMessage, prop string) (string, bool) {
	var rp struct {
		Scenario string `json:"scenario"`
		Choices  []int  `json:"choices"`
	}
	json.Unmarshal(raw, &rp)
	for _, th := range []bool{false, true} {
		for _, sc := range sqlScenarios(prop, th) {
			if sc.Name == rp.Scenario {
				x, v, out, div := core.RunSchedule(sc.build(prop), rp.Choices)
				desc := fmt.Sprintf("%s\nschedule of %d points -> %s %s", sc.describe(), len(x.Trace), out, div)
				if v != nil {
					return desc + "\n" + v.Detail, true
				}
				return desc, false
			}
		}
	}
	return "scenario not found: " + rp.Scenario, false
}

// sqlKeyDomain: every key value the seed or a statement of the scenario mentions (rows that no longer exist
// must not be found through an index either).
func sqlKeyDomain(seed []*Stmt, recs [][]*txnRecord) []any {
	seen := map[string]bool{}
	var out []any
	add := func(v any) {
		if v != nil && !seen[fmt.Sprint(v)] {
			seen[fmt.Sprint(v)] = true
			out = append(out, v)
		}
	}
	for _, s := range seed {
		for _, r := range s.Rows {
			add(r[0])
		}
	}
	for _, rs := range recs {
		for _, r := range rs {
			for _, s := range r.stmts {
				for _, row := range s.Rows {
					add(row[0])
				}
				for _, it := range s.Set {
					if it.Col == "k" {
						add(it.Val)
					}
				}
			}
		}
	}
	return out
}

// indexBattery compares, for table (k INT, v VARCHAR) read back as `final` through the scan path, every
// point lookup through the index on k (all keys of the domain and of the final table) and on v (all
// values of the final table) with the rows of `final`. Returns "" or a description of the first mismatch.
func indexBattery(db *DB, table string, final Rows, keys []any) string {
	seen := map[string]bool{}
	for _, k := range keys {
		seen[fmt.Sprint(k)] = true
	}
	for _, r := range final {
		if !seen[fmt.Sprint(r[0])] {
			seen[fmt.Sprint(r[0])] = true
			keys = append(keys, r[0])
		}
	}
	check := func(col string, idx int, val any) string {
		want := Rows{}
		for _, r := range final {
			if c, ok := cmpVal(r[idx], val); ok && c == 0 {
				want = append(want, r)
			}
		}
		q := fmt.Sprintf("SELECT k, v FROM %s WHERE %s = %s;", table, col, Lit(val))
		got := db.Auto(q)
		if got.Fail != nil || got.Aborted || got.Err != "" {
			return fmt.Sprintf("%s -> fail=%v aborted=%v err=%q (the table, read by a scan, holds %s)", q, got.Fail, got.Aborted, got.Err, want.Short())
		}
		if got.Rows.Canon() != want.Canon() {
			return fmt.Sprintf("%s returns %s, the table (read by a scan) holds %s", q, got.Rows.Short(), want.Short())
		}
		return ""
	}
	for _, k := range keys {
		if d := check("k", 0, k); d != "" {
			return d
		}
	}
	vs := map[string]bool{}
	for _, r := range final {
		if s, ok := r[1].(string); ok && !vs[s] && len(s) <= 64 {
			vs[s] = true
			if d := check("v", 1, r[1]); d != "" {
				return d
			}
		}
	}
	return ""
}
