package props

import (
	"encoding/json"
	"sort"

	"verif/core"
)

func sortStrings(s []string) { sort.Strings(s) }

// sqlConcurrent / sqlConcReplay: Engine C at SQL level (filled in below).
func sqlConcurrent(c *core.Ctx, prop string)                    {}
func sqlConcReplay(raw json.RawMessage, prop string) (string, bool) { return "no concurrent replay yet", false }
