package props

// C14 — statements release every buffer pin they take. Engine A at SQL level: one representative statement
// per plan shape, every sequence up to a bound (so every statement also starts from every pin state another
// statement can leave), tables of 0 / 3 rows / 2 pages, pool 128 KB and minimal. Oracle: the vector
// (frame -> page id, pin count) over ALL frames of the pool after the statement (and its commit/abort)
// equals the vector before it.

import (
	"encoding/json"
	"fmt"
	"sort"
	"strings"
	"time"

	"github.com/ryogrid/SamehadaDB/lib/execution/plans"

	"verif/core"
)

type c14Params struct {
	Seed  string `json:"seed"`
	MemKB int    `json:"mem_kb"`
	Depth int    `json:"depth"`
}

func c14Defs() map[string]TableDef {
	return map[string]TableDef{
		"t": {Name: "t", Cols: []ColDef{{"k", TInt}, {"v", TStr}}},
		"u": {Name: "u", Cols: []ColDef{{"k2", TInt}, {"w", TInt}}},
	}
}

// c14Stmts: raw SQL, one per plan shape (the answers are not judged here).
func c14Stmts() []string {
	long := bigStr("P", 600)
	return []string{
		"SELECT * FROM t;",                                                   // 0 seq scan
		"SELECT v FROM t WHERE k = 2;",                                       // 1 index point + projection
		"SELECT k, v FROM t WHERE k >= 1 AND k <= 3;",                        // 2 index range
		"SELECT k FROM t WHERE v = 'a2' OR v = 'a2';",                        // 3 seq scan + selection
		"SELECT t.k, u.w FROM t JOIN u ON t.k = u.k2;",                       // 4 join (optimizer's choice)
		"SELECT t.k, u.w FROM t JOIN u ON t.k = u.k2 WHERE t.k = 1 OR t.k = 2;", // 5 hash join (OR path of the planner)
		"SELECT t.v, u.w FROM t JOIN u ON t.k = u.k2 WHERE u.w >= 10;",       // 6 join + filter
		"INSERT INTO t(k, v) VALUES (7, 'seven');",                           // 7 insert
		"INSERT INTO t(k, v) VALUES (8, '" + long + "');",                    // 8 insert that may allocate a heap page
		"UPDATE t SET v = '" + bigStr("G", 690) + "' WHERE k = 2;",          // 9 growing / relocating update
		"UPDATE t SET k = 9 WHERE k = 3;",                                    // 10 key-changing update
		"DELETE FROM t WHERE k = 1;",                                         // 11 delete
		"SELECT nosuch FROM t;",                                              // 12 statement refused by the planner
		"SELECT * FROM nosuchtable;",                                         // 13 unknown table
		"INSERT INTO u(k2, w) VALUES (1, 10);",                               // 14 insert into the join partner
		"DELETE FROM u WHERE k2 = 1;",                                        // 15
		"DELETE FROM t WHERE k >= 1 AND k <= 6;", // 16 range delete: empties the head page of the two-page heap
		"DELETE FROM t WHERE k >= 7;",            // 17 range delete: empties the tail page of the two-page heap
		"SELECT k FROM t WHERE v >= 's1' AND v <= 's9';",   // 18 range scan over the index of the wide column (several index nodes in the two-page seed)
		"SELECT k FROM t WHERE v >= 's3' AND v <= 's5z';",  // 19 range scan that starts and ends inside the node chain
		"SELECT k, v FROM t WHERE k >= 100 AND k <= 200;", // 20 index range scan that returns nothing
		"UPDATE t SET v = 'x' WHERE k = 2;",               // 21 shrinking update: always relocates (in the two-page seed: from the head page to the tail page)
	}
}

// joinKind names the join algorithm of the plan the optimizer settled on.
func joinKind(tr []PlanChoice) string {
	for i := len(tr) - 1; i >= 0; i-- {
		if tr[i].Site == "join" || strings.HasPrefix(tr[i].Site, "joined:") {
			s := tr[i].Tied[tr[i].Taken]
			for _, k := range []string{"HashJoin", "IndexJoin", "NestedLoopJoin"} {
				if strings.Contains(s, k) {
					return k
				}
			}
		}
	}
	return "planner-path"
}

func pinVector(w *World) string {
	var ents []string
	for f, pg := range w.db.BPM().GetPages() {
		if pg == nil {
			continue
		}
		if pg.PinCount() != 0 {
			ents = append(ents, fmt.Sprintf("frame%d:page%d:pins%d", f, pg.GetPageID(), pg.PinCount()))
		}
	}
	sort.Strings(ents)
	return strings.Join(ents, " ")
}

// pinsByPage: page id -> pin count, frames of evicted/unpinned pages do not matter (pin count 0).
func pinsByPage(w *World) map[int]int {
	m := map[int]int{}
	for _, pg := range w.db.BPM().GetPages() {
		if pg != nil && pg.PinCount() != 0 {
			m[int(pg.GetPageID())] += int(pg.PinCount())
		}
	}
	return m
}

func c14Cfg(p c14Params) *WorldCfg {
	cfg := &WorldCfg{Prop: "C14", Driver: "c14", MemKB: p.MemKB, Defs: c14Defs(), SeedCreate: []string{"t", "u"}}
	ins := func(t string, cols []string, row ...any) *Stmt {
		return &Stmt{Kind: "insert", Table: t, Cols: cols, Rows: [][]any{row}}
	}
	switch p.Seed {
	case "rows3":
		cfg.SeedStmts = []*Stmt{ins("t", []string{"k", "v"}, int32(1), "a1"), ins("t", []string{"k", "v"}, int32(2), "a2"), ins("t", []string{"k", "v"}, int32(3), "a3"),
			ins("u", []string{"k2", "w"}, int32(1), int32(10)), ins("u", []string{"k2", "w"}, int32(2), int32(20)), ins("u", []string{"k2", "w"}, int32(2), int32(21))}
	case "pages2":
		for k := 1; k <= 8; k++ {
			cfg.SeedStmts = append(cfg.SeedStmts, ins("t", []string{"k", "v"}, int32(k), bigStr(fmt.Sprintf("s%d", k), 600)))
		}
		cfg.SeedStmts = append(cfg.SeedStmts, ins("u", []string{"k2", "w"}, int32(1), int32(10)), ins("u", []string{"k2", "w"}, int32(8), int32(80)))
	}
	sqls := c14Stmts()
	cfg.Ops = func(w *World) []string {
		var ops []string
		if _, own := w.txns[3]; own {
			// a multi-statement transaction that reads what it has changed itself: rows it deleted are still
			// in the index (entries go at commit) and still in their slots (delete-marked)
			n := 0
			for i := len(w.hist) - 1; i >= 0 && strings.HasPrefix(w.hist[i], "raw:3:"); i-- {
				n++
			}
			if n < 3 {
				for _, i := range []int{11, 16, 9, 21, 10, 7, 0, 1, 2, 3, 18} {
					ops = append(ops, fmt.Sprintf("raw:3:%d", i))
				}
			}
			if n > 0 {
				ops = append(ops, "commit:3", "abort:3")
			}
			return ops
		}
		_, reader := w.txns[2]
		if reader {
			// a statement that is aborted by a lock conflict with the open reader, then the reader ends
			if w.hist[len(w.hist)-1] == "begin:2" {
				return []string{"raw:2:1"}
			}
			for _, i := range []int{9, 21, 10, 11, 16} {
				ops = append(ops, fmt.Sprintf("raw:0:%d", i))
			}
			ops = append(ops, "commit:2")
			return ops
		}
		for i := range sqls {
			ops = append(ops, fmt.Sprintf("raw:0:%d", i))
			if strings.HasPrefix(sqls[i], "SELECT") {
				// the same statement below a LIMIT 1 node (plan level): the parent stops pulling early
				ops = append(ops, fmt.Sprintf("raw:0:%d~L1", i))
			}
			if strings.Contains(sqls[i], " JOIN ") && !strings.Contains(sqls[i], " OR ") {
				// every plan the optimizer could pick among equal-cost candidates (hook H3)
				if pfs, _, f := w.db.PlanVariants(sqls[i]); f == nil {
					for _, pf := range pfs {
						if s := pf.String(); s != "" {
							ops = append(ops, fmt.Sprintf("raw:0:%d#%s", i, s), fmt.Sprintf("raw:0:%d#%s~L1", i, s))
						}
					}
				}
			}
		}
		ops = append(ops, "begin:2")
		if !strings.Contains(strings.Join(w.hist, " "), "begin:3") {
			ops = append(ops, "begin:3") // once per history
		}
		return ops
	}
	var before map[int]int
	var beforeVec string
	cfg.Custom = func(w *World, op string) (bool, *core.Violation) {
		if !strings.HasPrefix(op, "raw:") {
			return false, nil
		}
		var txn, si int
		fmt.Sscanf(op, "raw:%d:%d", &txn, &si)
		var choices PlanChoices
		limited := strings.HasSuffix(op, "~L1")
		if i := strings.IndexByte(op, '#'); i > 0 {
			choices = ParsePlanChoices(strings.TrimSuffix(op[i+1:], "~L1"))
		}
		if limited {
			PlanWrap = func(p plans.Plan) plans.Plan { return plans.NewLimitPlanNode(p, 1, 0) }
			defer func() { PlanWrap = nil }()
		}
		SetPlanChoices(choices)
		defer SetPlanChoices(nil)
		before, beforeVec = pinsByPage(w), pinVector(w)
		var r StmtResult
		if txn == 0 {
			r = w.db.Auto(sqls[si])
		} else {
			r = w.txns[txn].Exec(sqls[si])
		}
		kind := fmt.Sprintf("stmt%d", si)
		if limited {
			kind += "/under-limit"
		}
		if r.Fail != nil {
			v := w.viol("statement-failed/"+kind+"/"+r.Fail.Kind+"@"+r.Fail.Where, op, shortSQL(sqls[si])+" -> "+r.Fail.String())
			v.Ignore = true // a statement that panics is C06's business; pins after a panic are meaningless
			return true, v
		}
		switch {
		case r.Err != "":
			w.last = "refused"
		case r.Aborted:
			w.last = "engine-abort"
		case r.IsQuery:
			w.last = fmt.Sprintf("rows%d", min(len(r.Rows), 2))
			if strings.Contains(sqls[si], " JOIN ") {
				w.last += ":" + joinKind(PlanTrace)
			}
		default:
			w.last = "done"
		}
		after := pinsByPage(w)
		var newly, grown []string
		for pg, n := range after {
			if before[pg] == 0 {
				newly = append(newly, fmt.Sprintf("page %d: 0 -> %d", pg, n))
			} else if n > before[pg] {
				grown = append(grown, fmt.Sprintf("page %d: %d -> %d", pg, before[pg], n))
			}
		}
		if len(newly) > 0 {
			sort.Strings(newly)
			return true, w.viol("frame-left-pinned/"+kind+"/"+w.last, op, fmt.Sprintf("%s (%s): frames pinned that were not pinned before: %s\n  before: %s\n  after : %s", shortSQL(sqls[si]), w.last, strings.Join(newly, "; "), beforeVec, pinVector(w)))
		}
		if len(grown) > 0 {
			// the pin COUNT of a page that is pinned for the life of its index (skip-list start node) grew:
			// no additional frame is held, which is what the property is about; reported as a statistic
			w.last += "+pin-count-of-permanently-pinned-page-grew"
		}
		return true, nil
	}
	var atBegin map[int]int
	var atBeginVec string
	cfg.Before = func(w *World, op string) *core.Violation {
		if op == "begin:3" {
			atBegin, atBeginVec = pinsByPage(w), pinVector(w)
		}
		return nil
	}
	cfg.After = func(w *World, op string) *core.Violation {
		if (op != "commit:3" && op != "abort:3") || atBegin == nil {
			return nil
		}
		var newly []string
		for pg, n := range pinsByPage(w) {
			if atBegin[pg] == 0 {
				newly = append(newly, fmt.Sprintf("page %d: 0 -> %d", pg, n))
			}
		}
		if len(newly) > 0 {
			sort.Strings(newly)
			return w.viol("frame-left-pinned/transaction-end/"+strings.SplitN(op, ":", 2)[0], op, fmt.Sprintf("after the transaction ended frames are pinned that were not pinned when it began: %s\n  at begin: %s\n  now     : %s", strings.Join(newly, "; "), atBeginVec, pinVector(w)))
		}
		return nil
	}
	cfg.KeyExtra = func(w *World) string { return pinVector(w) }
	return cfg
}

func init() {
	core.Register(&core.Driver{
		Prop: "C14",
		Budget: func(tier string) time.Duration {
			if tier == "thorough" {
				return 20 * time.Minute
			}
			return 120 * time.Second
		},
		Assume: []string{
			"DDL happens only in the seed (CREATE TABLE legitimately leaves the skip-list start nodes pinned for the life of the index)",
			"the pin vector covers all frames of the pool (GetPages), stale frames of deallocated pages included; it is compared per page id",
			"statements whose execution panics are reported by C06, not here",
			"SQL tables (skip-list indexes); the B-link tree's internal page cache is not judged",
		},
		Run: func(c *core.Ctx) {
			depth := 3
			if c.Thorough() {
				depth = 4
			}
			for _, mem := range []int{128, 64} {
				for _, seed := range []string{"empty", "rows3", "pages2"} {
					p := c14Params{Seed: seed, MemKB: mem, Depth: depth}
					core.BFS(c, core.SeqConfig{Name: fmt.Sprintf("c14/%s/mem%d", seed, mem), Params: p,
						Fresh: func() core.Instance { return NewWorld(c14Cfg(p)) }, MaxDepth: depth, SplitDepth: 1})
				}
			}
		},
		Replay: func(raw json.RawMessage) (string, bool) {
			var rp struct {
				History []string  `json:"history"`
				Params  c14Params `json:"params"`
			}
			json.Unmarshal(raw, &rp)
			return core.ReplayHistory(func() core.Instance { return NewWorld(c14Cfg(rp.Params)) }, rp.History)
		},
	})
}
