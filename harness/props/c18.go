package props

// C18 — index key encoding preserves order and round-trips; row ids pack losslessly.
// The deciding step is plain enumeration of the whole input domain where it is finite (2^32 integers,
// all non-NaN float32 bit patterns, walked in numeric order so that adjacent-pair checks give the total
// order by transitivity) and of a bounded alphabet for strings and row ids. Only exported functions.

import (
	"bytes"
	"encoding/json"
	"fmt"
	"math"
	"sort"
	"strings"
	"time"

	"github.com/ryogrid/SamehadaDB/lib/samehada/samehada_util"
	"github.com/ryogrid/SamehadaDB/lib/storage/page"
	"github.com/ryogrid/SamehadaDB/lib/types"

	"verif/core"
)

var (
	ridMin = page.RID{PageID: 0, SlotNum: 0}
	ridMax = page.RID{PageID: math.MaxInt32, SlotNum: math.MaxUint32}
)

func encV(v types.Value, r *page.RID) string {
	return samehada_util.EncodeValueAndRIDToDicOrderComparableVarchar(&v, r).ToVarchar()
}

type c18Fail struct {
	clause, detail string
}

func c18Int(x int32) *c18Fail {
	lo := samehada_util.EncodeValueAndRIDToDicOrderComparableVarchar(ptrV(types.NewInteger(x)), &ridMin)
	back := samehada_util.ExtractOrgKeyFromDicOrderComparableEncodedVarchar(lo, types.Integer)
	if back.ValueType() != types.Integer || back.ToInteger() != x {
		return &c18Fail{"int-roundtrip", fmt.Sprintf("decode(encode(%d)) = %v", x, back.ToIFValue())}
	}
	if x != math.MaxInt32 {
		hi := encV(types.NewInteger(x), &ridMax)
		next := encV(types.NewInteger(x+1), &ridMin)
		if !(lo.ToVarchar() <= hi && hi < next) {
			return &c18Fail{"int-order", fmt.Sprintf("encodings of key %d (with the largest row id) do not sort before key %d (with the smallest)", x, x+1)}
		}
	}
	return nil
}

func ptrV(v types.Value) *types.Value { return &v }

// floatFromOrd maps 0..2^32-1 (minus NaNs) monotonically onto float32: ordinal of the bit pattern in
// numeric order. ok=false for NaN patterns.
func floatOfBits(b uint32) (float32, bool) {
	f := math.Float32frombits(b)
	return f, f == f
}

// succBits returns the bit pattern of the next float in numeric order (treating -0.0 < +0.0 as two
// adjacent patterns of equal value), ok=false after +Inf.
func succBits(b uint32) (uint32, bool) {
	if b == 0x7f800000 { // +Inf
		return 0, false
	}
	if b&0x80000000 != 0 { // negative: towards zero
		if b == 0x80000000 {
			return 0, true // -0.0 -> +0.0
		}
		return b - 1, true
	}
	return b + 1, true
}

func c18Float(b uint32) *c18Fail {
	f, ok := floatOfBits(b)
	if !ok {
		return nil
	}
	lo := samehada_util.EncodeValueAndRIDToDicOrderComparableVarchar(ptrV(types.NewFloat(f)), &ridMin)
	back := samehada_util.ExtractOrgKeyFromDicOrderComparableEncodedVarchar(lo, types.Float)
	if back.ValueType() != types.Float || back.ToFloat() != f {
		return &c18Fail{"float-roundtrip", fmt.Sprintf("decode(encode(%v [%#x])) = %v", f, b, back.ToIFValue())}
	}
	nb, ok := succBits(b)
	if !ok {
		return nil
	}
	g, _ := floatOfBits(nb)
	hi := encV(types.NewFloat(f), &ridMax)
	next := encV(types.NewFloat(g), &ridMin)
	if f == g { // -0.0 and +0.0: the same key
		if lo.ToVarchar() != next {
			return &c18Fail{"float-equal-keys", fmt.Sprintf("%#x and %#x compare equal but encode differently", b, nb)}
		}
		return nil
	}
	if !(lo.ToVarchar() <= hi && hi < next) {
		return &c18Fail{"float-order", fmt.Sprintf("encodings of key %v [%#x] do not sort before the next float %v [%#x]", f, b, g, nb)}
	}
	return nil
}

func c18Strings(maxLen int) []string {
	alpha := []byte{0x01, 'a', 'b', 0x7f, 0x80, 0xff}
	out := []string{""}
	prev := []string{""}
	for l := 1; l <= maxLen; l++ {
		var cur []string
		for _, p := range prev {
			for _, c := range alpha {
				cur = append(cur, p+string([]byte{c}))
			}
		}
		out = append(out, cur...)
		prev = cur
	}
	return out
}

func c18Rids() []page.RID {
	lanes := []uint32{0x00, 0x01, 0x7f, 0x80, 0xff}
	var out []page.RID
	for _, a := range []uint32{0x00, 0x01, 0x7f} {
		for _, b := range lanes {
			for _, c := range lanes {
				for _, d := range lanes {
					pid := a<<24 | b<<16 | c<<8 | d
					for _, e := range lanes {
						for _, f := range lanes {
							for _, g := range lanes {
								for _, h := range lanes {
									out = append(out, page.RID{PageID: types.PageID(pid), SlotNum: e<<24 | f<<16 | g<<8 | h})
								}
							}
						}
					}
				}
			}
		}
	}
	return out
}

func c18Rid(r page.RID, keys []types.Value) *c18Fail {
	if got := samehada_util.UnpackUint64toRID(samehada_util.PackRIDtoUint64(&r)); got != r {
		return &c18Fail{"rid-u64", fmt.Sprintf("unpack(pack(%v)) = %v", r, got)}
	}
	if got := samehada_util.Unpack8BytesToRID(samehada_util.PackRIDto8bytes(&r)); got != r {
		return &c18Fail{"rid-8bytes", fmt.Sprintf("unpack8(pack8(%v)) = %v", r, got)}
	}
	if r.SlotNum < 1<<16 {
		// the B-tree stores 6 of the 8 bytes (page id + low 16 bits of the slot); mirrored from btree_index.go
		b := samehada_util.PackRIDto8bytes(&r)
		six := [6]byte{b[0], b[1], b[2], b[3], b[6], b[7]}
		eight := []byte{six[0], six[1], six[2], six[3], 0, 0, six[4], six[5]}
		if got := samehada_util.Unpack8BytesToRID(eight); got != r {
			return &c18Fail{"rid-6bytes", fmt.Sprintf("6-byte form of %v decodes to %v", r, got)}
		}
	}
	// two different row ids under one key give two different entries (an index that sees equal bytes keeps
	// one of them): the neighbours of r in every byte lane of page id and slot
	for _, d := range []uint32{1, 1 << 8, 1 << 16, 1 << 24} {
		for _, r2 := range []page.RID{{PageID: r.PageID ^ types.PageID(d), SlotNum: r.SlotNum}, {PageID: r.PageID, SlotNum: r.SlotNum ^ d}} {
			if r2.PageID < 0 {
				continue
			}
			for _, k := range keys {
				if encV(k, &r) == encV(k, &r2) {
					return &c18Fail{"rid-distinct", fmt.Sprintf("key %v: the entries for row ids %v and %v have the same bytes", k.ToIFValue(), r, r2)}
				}
			}
		}
	}
	for _, k := range keys {
		lo, mid, hi := encV(k, &ridMin), encV(k, &r), encV(k, &ridMax)
		if !(lo <= mid && mid <= hi) {
			return &c18Fail{"rid-window", fmt.Sprintf("entry (key %v, rid %v) falls outside the [rid{0,0}, rid{MaxInt32,MaxUint32}] window ScanKey uses", k.ToIFValue(), r)}
		}
		back := samehada_util.ExtractOrgKeyFromDicOrderComparableEncodedVarchar(ptrV(types.NewVarchar(mid)), k.ValueType())
		if !back.CompareEquals(k) {
			return &c18Fail{"key-roundtrip-with-rid", fmt.Sprintf("key %v with rid %v decodes to %v", k.ToIFValue(), r, back.ToIFValue())}
		}
	}
	return nil
}

// guarded runs one evaluation; a panic inside the library's encoder/decoder is a verdict of its own.
func guarded(kind string, fn func() *c18Fail) (out *c18Fail) {
	if f := guard(func() { out = fn() }); f != nil {
		return &c18Fail{kind + "-panic", "the encoder/decoder panics: " + f.String()}
	}
	return out
}

func c18Run(c *core.Ctx) {
	res := c.Res
	fail := func(f *c18Fail, input any) {
		res.Violate(&core.Violation{Property: "C18", Signature: "enc/" + f.clause, Detail: f.detail,
			Replay: map[string]any{"clause": f.clause, "input": input}})
	}
	// ---- integers -------------------------------------------------------------------------------
	var intRanges [][2]int64
	if c.Thorough() {
		intRanges = [][2]int64{{math.MinInt32, math.MaxInt32}}
		res.Bound["int"] = "all 2^32 values (adjacent pairs => total order by transitivity)"
	} else {
		w := int64(1 << 16)
		for _, m := range []int64{math.MinInt32 + w, -(1 << 24), -(1 << 16), -(1 << 8), 0, 1 << 8, 1 << 16, 1 << 24, math.MaxInt32 - w} {
			intRanges = append(intRanges, [2]int64{m - w, m + w})
		}
		res.Bound["int"] = "windows of +-2^16 around every byte-lane / sign boundary, plus every 2^12-th value"
	}
	nInt := int64(0)
	chunk := int64(1 << 20)
	ci := 0
	for _, r := range intRanges {
		for lo := r[0]; lo <= r[1]; lo += chunk {
			ci++
			if !c.Mine(ci) {
				continue
			}
			if c.Expired() {
				break
			}
			hi := lo + chunk - 1
			if hi > r[1] {
				hi = r[1]
			}
			for x := lo; x <= hi; x++ {
				if f := guarded("int", func() *c18Fail { return c18Int(int32(x)) }); f != nil {
					fail(f, x)
					break
				}
				nInt++
			}
		}
	}
	if !c.Thorough() && c.Mine(0) {
		for x := int64(math.MinInt32); x <= math.MaxInt32; x += 1 << 12 {
			if f := guarded("int", func() *c18Fail { return c18Int(int32(x)) }); f != nil {
				fail(f, x)
				break
			}
			nInt++
		}
	}
	res.PerOp["int-values"] += nInt
	// ---- floats ---------------------------------------------------------------------------------
	nF := int64(0)
	var fRanges [][2]uint64 // bit patterns, inclusive
	if c.Thorough() {
		fRanges = [][2]uint64{{0, math.MaxUint32}}
		res.Bound["float"] = "all 2^32 bit patterns minus NaNs, each with its numeric successor"
	} else {
		w := uint64(1 << 16)
		for _, m := range []uint64{w, 0x00800000, 0x3f800000, 0x7f800000 - w, 0x80000000 + w, 0x80800000, 0xbf800000, 0xff800000 - w} {
			fRanges = append(fRanges, [2]uint64{m - w, m + w})
		}
		res.Bound["float"] = "windows of +-2^16 bit patterns around +-0, denormal/normal edge, +-1, +-MaxFloat/+-Inf, plus every 2^12-th pattern"
	}
	for _, r := range fRanges {
		for lo := r[0]; lo <= r[1]; lo += uint64(chunk) {
			ci++
			if !c.Mine(ci) {
				continue
			}
			if c.Expired() {
				break
			}
			hi := lo + uint64(chunk) - 1
			if hi > r[1] {
				hi = r[1]
			}
			for b := lo; b <= hi; b++ {
				if f := guarded("float", func() *c18Fail { return c18Float(uint32(b)) }); f != nil {
					fail(f, b)
					break
				}
				nF++
			}
		}
	}
	if !c.Thorough() && c.Mine(1) {
		for b := uint64(0); b <= math.MaxUint32; b += 1 << 12 {
			if f := guarded("float", func() *c18Fail { return c18Float(uint32(b)) }); f != nil {
				fail(f, b)
				break
			}
			nF++
		}
	}
	res.PerOp["float-patterns"] += nF
	// ---- strings --------------------------------------------------------------------------------
	maxLen := 4
	if c.Thorough() {
		maxLen = 5
	}
	strs := c18Strings(maxLen)
	// length-boundary strings
	for _, l := range []int{24, 36, 37, 255, 256, 257, 700} {
		base := strings.Repeat("k", l-1)
		strs = append(strs, base+"a", base+"b", base+"\xff")
	}
	// one string of every length up to 1100 bytes (length arithmetic of the encoded header)
	for l := 5; l <= 1100; l++ {
		strs = append(strs, strings.Repeat("k", l))
	}
	sort.Strings(strs)
	res.Bound["string"] = fmt.Sprintf("all %d strings: everything over {01,'a','b',7f,80,ff} up to length %d, length-boundary strings up to 700 bytes, one string of every length up to 1100; all ordered pairs", len(strs), maxLen)
	type encd struct{ lo, hi, padded string }
	encs := make([]encd, len(strs))
	for i, s := range strs {
		v := types.NewVarchar(s)
		if f := guard(func() { encs[i].lo, encs[i].hi = encV(v, &ridMin), encV(v, &ridMax) }); f != nil {
			if c.Mine(i) {
				fail(&c18Fail{"string-encode-panic", fmt.Sprintf("encoding a %d-byte string with a row id panics: %s", len(s), f.String())}, s)
			}
			continue
		}
		if len(encs[i].lo) <= 50-14 {
			encs[i].padded = string(samehada_util.FillZeroValues([]byte(encs[i].lo), 50))
		}
		if c.Mine(i) {
			var back *types.Value
			if f := guard(func() {
				back = samehada_util.ExtractOrgKeyFromDicOrderComparableEncodedVarchar(ptrV(types.NewVarchar(encs[i].lo)), types.Varchar)
			}); f != nil {
				fail(&c18Fail{"string-decode-panic", fmt.Sprintf("decoding the encoded %d-byte string panics: %s", len(s), f.String())}, s)
				continue
			}
			if back.ToVarchar() != s {
				fail(&c18Fail{"string-roundtrip", fmt.Sprintf("decode(encode(%s)) = %s", shortKey(s), shortKey(back.ToVarchar()))}, s)
			}
			if encs[i].padded != "" {
				if un := samehada_util.EliminateZeroValues([]byte(encs[i].padded)); !bytes.Equal(un, []byte(encs[i].lo)) {
					fail(&c18Fail{"string-padding-roundtrip", fmt.Sprintf("B-tree padding of key %q does not strip back", s)}, s)
				}
			}
			if !(encs[i].lo <= encs[i].hi) {
				fail(&c18Fail{"string-window", fmt.Sprintf("key %q: smallest-rid encoding sorts after largest-rid encoding", s)}, s)
			}
		}
	}
	nS := int64(0)
	for i := range strs {
		if !c.Mine(i) {
			continue
		}
		if c.Expired() {
			break
		}
		for j := i + 1; j < len(strs); j++ {
			// strs is sorted and duplicate-free: strs[i] < strs[j]
			nS++
			if !(encs[i].hi < encs[j].lo) {
				fail(&c18Fail{"string-order", fmt.Sprintf("%v < %v but an entry of the first (largest rid) does not sort before an entry of the second (smallest rid)", shortKey(strs[i]), shortKey(strs[j]))}, []string{strs[i], strs[j]})
			}
			if encs[i].padded != "" && encs[j].padded != "" && !(encs[i].padded < encs[j].padded) {
				fail(&c18Fail{"string-order-padded", fmt.Sprintf("%q < %q but the zero-padded B-tree keys sort the other way", strs[i], strs[j])}, []string{strs[i], strs[j]})
			}
		}
	}
	res.PerOp["string-pairs"] += nS
	// ---- row ids --------------------------------------------------------------------------------
	rids := c18Rids()
	res.Bound["rid"] = fmt.Sprintf("%d row ids: every byte lane of page id and slot from {00,01,7f,80,ff}, page id < 2^31", len(rids))
	keys := []types.Value{types.NewInteger(math.MinInt32), types.NewInteger(-1), types.NewInteger(0), types.NewInteger(math.MaxInt32),
		types.NewFloat(-1.5), types.NewFloat(0), types.NewFloat(float32(math.Inf(1))), types.NewVarchar(""), types.NewVarchar("a"), types.NewVarchar("\xff\xff")}
	nR := int64(0)
	for i, r := range rids {
		if !c.Mine(i >> 8) {
			continue
		}
		if f := guarded("rid", func() *c18Fail { return c18Rid(r, keys) }); f != nil {
			fail(f, r)
			break
		}
		nR++
	}
	res.PerOp["rids"] += nR
	// ---- row ids through the real index wrappers ---------------------------------------------------
	// (the wrappers carry their own copies of the value packing: the B-tree cuts the row id to 6 bytes on
	// insert and widens it again in ScanKey and, separately, in its range iterator)
	if c.Shard == 0 {
		for _, kind := range []string{"skip", "btree", "hash"} {
			if f := guarded("rid-through-index/"+kind, func() *c18Fail { return c18ThroughIndex(kind) }); f != nil {
				fail(f, kind)
			}
			res.PerOp["rids-through-"+kind+"-index"] += int64(len(c18IndexRids(kind)))
		}
		res.Outcome("rid:through-index(skip,btree,hash;lookup+range)")
	}
	total := nInt + nF + nS + nR
	res.States += total
	res.Transitions += total
	res.Traces += total
	if c.Shard == 0 {
		res.Sample(map[string]any{"int": -1, "encoded_with_rid0": fmt.Sprintf("%x", encV(types.NewInteger(-1), &ridMin))})
		res.Sample(map[string]any{"float_bits": "0x80000000 (-0.0)", "encoded_with_rid0": fmt.Sprintf("%x", encV(types.NewFloat(float32(math.Copysign(0, -1))), &ridMin))})
		res.Sample(map[string]any{"string": "ab", "encoded_with_ridmax": fmt.Sprintf("%x", encV(types.NewVarchar("ab"), &ridMax))})
		res.Outcome("int:order+roundtrip")
		res.Outcome("float:order+roundtrip")
		res.Outcome("float:equal-keys(-0.0,+0.0)")
		res.Outcome("string:order+roundtrip+padding")
		res.Outcome("rid:pack/unpack+window")
	}
	res.Completed = "all listed domains enumerated completely"
}

func init() {
	core.Register(&core.Driver{
		Prop: "C18",
		Budget: func(tier string) time.Duration {
			if tier == "thorough" {
				return 80 * time.Minute
			}
			return 150 * time.Second
		},
		Assume: []string{
			"index containers compare encoded keys bytewise (Go string comparison of the varchar value in the skip list, bytes.Compare in the B-link tree)",
			"strings contain no NUL byte (property); B-tree varchar keys are limited to MaxKeyLen=50 bytes including 14 bytes of overhead and row id",
			"the 6-byte row id form of the B-tree index is mirrored from btree_index.go for the enumeration of the whole 6-byte domain; in addition row ids over every byte lane go through the real skip-list, B-tree and hash index wrappers (insert, point lookup, range iterator)",
		},
		Run: c18Run,
		Replay: func(raw json.RawMessage) (string, bool) {
			var rp struct {
				Clause string          `json:"clause"`
				Input  json.RawMessage `json:"input"`
			}
			json.Unmarshal(raw, &rp)
			var f *c18Fail
			switch {
			case strings.HasPrefix(rp.Clause, "int"):
				var x int64
				json.Unmarshal(rp.Input, &x)
				f = c18Int(int32(x))
			case strings.HasPrefix(rp.Clause, "float"):
				var b uint64
				json.Unmarshal(rp.Input, &b)
				f = c18Float(uint32(b))
			case strings.HasPrefix(rp.Clause, "rid-through-index"):
				var kind string
				json.Unmarshal(rp.Input, &kind)
				f = c18ThroughIndex(kind)
			case strings.HasPrefix(rp.Clause, "rid"), strings.HasPrefix(rp.Clause, "key-roundtrip"):
				var r page.RID
				json.Unmarshal(rp.Input, &r)
				f = c18Rid(r, []types.Value{types.NewInteger(0), types.NewFloat(0), types.NewVarchar("a")})
			default:
				// string clauses: the input is one string or an ordered pair of strings
				var one string
				var pair []string
				if json.Unmarshal(rp.Input, &one) != nil {
					json.Unmarshal(rp.Input, &pair)
				} else {
					pair = []string{one}
				}
				var out []string
				bad := false
				encs := make([][2]string, len(pair))
				for i, s := range pair {
					if fl := guard(func() {
						v := types.NewVarchar(s)
						encs[i] = [2]string{encV(v, &ridMin), encV(v, &ridMax)}
						back := samehada_util.ExtractOrgKeyFromDicOrderComparableEncodedVarchar(ptrV(types.NewVarchar(encs[i][0])), types.Varchar)
						if back.ToVarchar() != s {
							bad = true
							out = append(out, fmt.Sprintf("decode(encode(%v)) = %v", shortKey(s), shortKey(back.ToVarchar())))
						}
						if !(encs[i][0] <= encs[i][1]) {
							bad = true
							out = append(out, fmt.Sprintf("key %v: smallest-rid encoding sorts after largest-rid encoding", shortKey(s)))
						}
					}); fl != nil {
						return fmt.Sprintf("encoding/decoding the %d-byte string panics: %s", len(s), fl.String()), true
					}
				}
				if len(pair) == 2 && !(encs[0][1] < encs[1][0]) {
					bad = true
					out = append(out, fmt.Sprintf("%v < %v but the encoded entries sort the other way", shortKey(pair[0]), shortKey(pair[1])))
				}
				if len(pair) == 2 && len(encs[0][0]) <= 36 && len(encs[1][0]) <= 36 {
					a, b := string(samehada_util.FillZeroValues([]byte(encs[0][0]), 50)), string(samehada_util.FillZeroValues([]byte(encs[1][0]), 50))
					if !(a < b) {
						bad = true
						out = append(out, "the zero-padded B-tree keys sort the other way")
					}
				}
				if !bad {
					return "string input ok: round trip, window and order hold", false
				}
				return strings.Join(out, "; "), true
			}
			if f != nil {
				return f.clause + ": " + f.detail, true
			}
			return "input " + string(rp.Input) + " ok", false
		},
	})
}

// c18IndexRids: row ids over the byte lanes of page id and slot that the index kind can hold (the B-tree value
// has 2 bytes for the slot).
func c18IndexRids(kind string) []page.RID {
	pages := []int32{0, 1, 255, 256, 65535, 65536, 70000, 1<<24 - 1, 1 << 24, math.MaxInt32}
	slots := []uint32{0, 1, 255, 256, 257, 513, 65535}
	if kind != "btree" {
		slots = append(slots, 65536, 1<<24, math.MaxUint32>>1)
	}
	var out []page.RID
	for _, p := range pages {
		for _, sl := range slots {
			out = append(out, page.RID{PageID: types.PageID(p), SlotNum: sl})
		}
	}
	return out
}

// c18ThroughIndex stores each row id under its own key in a real index of the given kind and reads it back
// through the point lookup and (ordered kinds) through the range iterator.
func c18ThroughIndex(kind string) *c18Fail {
	in := newC17(c17Params{Kind: kind, KeyT: "int", Seed: "empty", Levels: "all1"})
	defer in.Close()
	rids := c18IndexRids(kind)
	for i, r := range rids {
		in.idx.InsertEntry(in.tup(int32(i)), r, nil)
	}
	for i, r := range rids {
		got := in.idx.ScanKey(in.tup(int32(i)), nil)
		if len(got) != 1 || got[0] != r {
			return &c18Fail{"rid-through-index/" + kind + "/lookup", fmt.Sprintf("row id %v stored under key %d in a %s index comes back from ScanKey as %v", r, i, kind, got)}
		}
	}
	// ... and all of them under ONE key: none may replace another
	one := newC17(c17Params{Kind: kind, KeyT: "int", Seed: "empty", Levels: "all1"})
	defer one.Close()
	for _, r := range rids {
		one.idx.InsertEntry(one.tup(int32(5)), r, nil)
	}
	got := one.idx.ScanKey(one.tup(int32(5)), nil)
	seen := map[page.RID]int{}
	for _, g := range got {
		seen[g]++
	}
	for _, r := range rids {
		if seen[r] != 1 {
			return &c18Fail{"rid-through-index/" + kind + "/same-key", fmt.Sprintf("%d row ids stored under one key in a %s index: ScanKey returns %d entries, row id %v %d times", len(rids), kind, len(got), r, seen[r])}
		}
	}
	if kind == "hash" {
		return nil
	}
	it := in.idx.GetRangeScanIterator(nil, nil, nil)
	for i := 0; i < len(rids)+1; i++ {
		done, _, _, rid := it.Next()
		if done {
			if i != len(rids) {
				return &c18Fail{"rid-through-index/" + kind + "/range", fmt.Sprintf("the range iterator of the %s index ends after %d of %d entries", kind, i, len(rids))}
			}
			return nil
		}
		if i >= len(rids) || rid == nil || *rid != rids[i] {
			want := "nothing"
			if i < len(rids) {
				want = fmt.Sprint(rids[i])
			}
			return &c18Fail{"rid-through-index/" + kind + "/range", fmt.Sprintf("entry %d of the %s index's range iterator carries row id %v, stored: %s", i, kind, rid, want)}
		}
	}
	return nil
}
