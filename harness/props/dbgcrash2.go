package props

import (
	"encoding/json"
	"fmt"
	"os"

	"github.com/ryogrid/SamehadaDB/lib/recovery/log_recovery"
	"github.com/ryogrid/SamehadaDB/lib/samehada"
	"github.com/ryogrid/SamehadaDB/lib/storage/access"
	"github.com/ryogrid/SamehadaDB/lib/types"

	"verif/core"
)

// developer aid for C20 replays: VERIF_REPLAY=<file> bin/dbg DBGC20
func init() {
	core.Register(&core.Driver{Prop: "DBGC20", Serial: true, Run: func(c *core.Ctx) {
		w := os.Stderr
		b, _ := os.ReadFile(os.Getenv("VERIF_REPLAY"))
		var f struct {
			Replay struct {
				First  crashReplay `json:"first"`
				N      int         `json:"second_n"`
				Cut    int         `json:"second_cut"`
				Pages  []int       `json:"second_pages"`
				MaxOps int         `json:"max_ops"`
			} `json:"replay"`
		}
		json.Unmarshal(b, &f)
		rp := f.Replay
		for _, seed := range append(crashSeeds(false), crashSeeds(true)...) {
			if seed.Name != rp.First.Seed {
				continue
			}
			hs := c20Histories(seed, false, rp.MaxOps)
			for try := 0; try < 200; try++ {
				hr := RunHistory(seed, hs[rp.First.HistIdx])
				p, ok := rp.First.locate(hr)
				if !ok {
					continue
				}
				im1 := hr.ImageAt(p)
				fmt.Fprintf(w, "first image log:")
				dumpLog(w, im1.Log)
				rc1 := Recover(im1, seed.Tables, seed.MemKB, crashProbe, true)
				tr := recTrace(im1, rc1.Rec)
				for i, ev := range tr.Events {
					if ev.Kind == 'L' {
						fmt.Fprintf(w, "rec ev %d L:", i)
						dumpLog(w, ev.Data)
					} else {
						fmt.Fprintf(w, "rec ev %d %c page/size %d\n", i, ev.Kind, ev.Page)
					}
				}
				q := CrashPoint{N: rp.N, Cut: rp.Cut, Torn: -1}
				for _, pg := range rp.Pages {
					for i := rp.N; i < len(tr.Events) && tr.Events[i].Kind == 'P'; i++ {
						if int(tr.Events[i].Page) == pg {
							q.Extra = append(q.Extra, i)
						}
					}
				}
				im2 := tr.ImageAt(q)
				fmt.Fprintf(w, "second image log:")
				dumpLog(w, im2.Log)
				dir := NewDir("dbgc20")
				im2.write(dir + "/m")
				shi := samehada.NewSamehadaInstance(dir+"/m", 32)
				txn := shi.GetTransactionManager().Begin(nil)
				shi.GetLogManager().DeactivateLogging()
				txn.SetIsRecoveryPhase(true)
				lr := log_recovery.NewLogRecovery(shi.GetDiskManager(), shi.GetBufferPoolManager(), shi.GetLogManager())
				dump := func(tag string) {
					for _, pid := range []int{2} {
						pg := shi.GetBufferPoolManager().FetchPage(types.PageID(pid))
						tp := access.CastPageAsTablePage(pg)
						fmt.Fprintf(w, "%s page %d lsn %d next %d fsp %d cnt %d:", tag, pid, tp.GetLSN(), tp.GetNextPageID(), tp.GetFreeSpacePointer(), tp.GetTupleCount())
						for sl := uint32(0); sl < tp.GetTupleCount() && sl < 12; sl++ {
							fmt.Fprintf(w, " %d/%x", tp.GetTupleOffsetAtSlot(sl), tp.GetTupleSize(sl))
						}
						fmt.Fprintln(w)
						shi.GetBufferPoolManager().UnpinPage(types.PageID(pid), false)
					}
				}
				dump("before")
				fmt.Fprintln(w, guard(func() { lr.Redo(txn) }))
				dump("after-redo")
				fmt.Fprintln(w, guard(func() { lr.Undo(txn) }))
				dump("after-undo")
				return
			}
		}
	}})
}
