package props

// Reference row model ("boring on purpose"): tables are slices of rows, every row has a committed
// image and at most one pending (uncommitted) image owned by one transaction. Statement semantics are
// implemented here independently of the engine: predicate trees with SQL three-valued logic,
// projection in written order, UPDATE/DELETE row selection.

import (
	"fmt"
	"math"
	"strconv"
	"strings"
)

type ColType int

const (
	TInt ColType = iota
	TFloat
	TStr
)

type ColDef struct {
	Name string
	Type ColType
}

type TableDef struct {
	Name string
	Cols []ColDef
	// Idx, if set, gives the index kind per column ("skip", "uniq", "btree", "hash", "" = none); the
	// table is then created through catalog.CreateTable instead of SQL DDL (which always gives every
	// column a skip-list index).
	Idx []string
}

func (td *TableDef) ColIdx(name string) int {
	for i, c := range td.Cols {
		if c.Name == name {
			return i
		}
	}
	return -1
}

func (td *TableDef) CreateSQL() string {
	var cs []string
	for _, c := range td.Cols {
		t := "INT"
		switch c.Type {
		case TFloat:
			t = "FLOAT"
		case TStr:
			t = "VARCHAR(800)"
		}
		cs = append(cs, c.Name+" "+t)
	}
	return fmt.Sprintf("CREATE TABLE %s(%s);", td.Name, strings.Join(cs, ", "))
}

// ---- values ---------------------------------------------------------------------------------------

// Lit renders a Go value as the SQL literal form the front end accepts for it.
func Lit(v any) string {
	switch x := v.(type) {
	case int32:
		return strconv.Itoa(int(x))
	case int:
		return strconv.Itoa(x)
	case float32:
		s := strconv.FormatFloat(float64(x), 'f', -1, 32)
		if !strings.Contains(s, ".") {
			s += ".0"
		}
		return s
	case string:
		return "'" + strings.ReplaceAll(x, "'", "''") + "'"
	}
	panic(fmt.Sprintf("no literal for %T", v))
}

// cmp compares two non-nil values of the same type: -1, 0, 1. ok=false if not comparable.
func cmpVal(a, b any) (int, bool) {
	switch x := a.(type) {
	case int32:
		y, ok := b.(int32)
		if !ok {
			return 0, false
		}
		switch {
		case x < y:
			return -1, true
		case x > y:
			return 1, true
		}
		return 0, true
	case float32:
		y, ok := b.(float32)
		if !ok {
			return 0, false
		}
		if math.IsNaN(float64(x)) || math.IsNaN(float64(y)) {
			return 0, false
		}
		switch {
		case x < y:
			return -1, true
		case x > y:
			return 1, true
		}
		return 0, true
	case string:
		y, ok := b.(string)
		if !ok {
			return 0, false
		}
		return strings.Compare(x, y), true
	}
	return 0, false
}

// ---- predicates -----------------------------------------------------------------------------------

type Tri int

const (
	False Tri = iota
	True
	Unknown
)

type Pred interface {
	Eval(td *TableDef, row []any) Tri
	SQL() string
	HasOr() bool
}

type Leaf struct {
	Col string
	Op  string // = <> < <= > >=
	Val any
}

func (l Leaf) SQL() string { return fmt.Sprintf("%s %s %s", l.Col, l.Op, Lit(l.Val)) }
func (l Leaf) HasOr() bool { return false }
func (l Leaf) Eval(td *TableDef, row []any) Tri {
	v := row[td.ColIdx(l.Col)]
	if v == nil || l.Val == nil {
		return Unknown
	}
	c, ok := cmpVal(v, l.Val)
	if !ok {
		return Unknown
	}
	var b bool
	switch l.Op {
	case "=":
		b = c == 0
	case "<>":
		b = c != 0
	case "<":
		b = c < 0
	case "<=":
		b = c <= 0
	case ">":
		b = c > 0
	case ">=":
		b = c >= 0
	default:
		panic("bad op " + l.Op)
	}
	if b {
		return True
	}
	return False
}

type And struct{ L, R Pred }

func (a And) SQL() string { return "(" + a.L.SQL() + ") AND (" + a.R.SQL() + ")" }
func (a And) HasOr() bool { return a.L.HasOr() || a.R.HasOr() }
func (a And) Eval(td *TableDef, row []any) Tri {
	l, r := a.L.Eval(td, row), a.R.Eval(td, row)
	if l == False || r == False {
		return False
	}
	if l == True && r == True {
		return True
	}
	return Unknown
}

type Or struct{ L, R Pred }

func (o Or) SQL() string { return "(" + o.L.SQL() + ") OR (" + o.R.SQL() + ")" }
func (o Or) HasOr() bool { return true }
func (o Or) Eval(td *TableDef, row []any) Tri {
	l, r := o.L.Eval(td, row), o.R.Eval(td, row)
	if l == True || r == True {
		return True
	}
	if l == False && r == False {
		return False
	}
	return Unknown
}

// ForceScan returns the same predicate in a form the planner sends to a sequential scan (P OR P).
func ForceScan(p Pred) Pred { return Or{p, p} }

// ---- statements -----------------------------------------------------------------------------------

type Stmt struct {
	Kind  string // select insert update delete
	Table string
	Cols  []string // select list ("*" = all); insert: target columns
	Where Pred
	Rows  [][]any // insert
	Set   []SetItem
}

type SetItem struct {
	Col string
	Val any
}

func (s *Stmt) SQL() string {
	w := ""
	if s.Where != nil {
		w = " WHERE " + s.Where.SQL()
	}
	switch s.Kind {
	case "select":
		return fmt.Sprintf("SELECT %s FROM %s%s;", strings.Join(s.Cols, ", "), s.Table, w)
	case "insert":
		var rs []string
		for _, r := range s.Rows {
			var vs []string
			for _, v := range r {
				vs = append(vs, Lit(v))
			}
			rs = append(rs, "("+strings.Join(vs, ", ")+")")
		}
		return fmt.Sprintf("INSERT INTO %s(%s) VALUES %s;", s.Table, strings.Join(s.Cols, ", "), strings.Join(rs, ", "))
	case "update":
		var ss []string
		for _, it := range s.Set {
			ss = append(ss, it.Col+" = "+Lit(it.Val))
		}
		return fmt.Sprintf("UPDATE %s SET %s%s;", s.Table, strings.Join(ss, ", "), w)
	case "delete":
		return fmt.Sprintf("DELETE FROM %s%s;", s.Table, w)
	}
	panic("bad stmt kind")
}

// ---- the model ------------------------------------------------------------------------------------

type MRow struct {
	Com     []any // committed image (nil: the row does not exist in the committed state)
	Pend    []any // pending image of Owner
	PendDel bool  // Owner deleted the row
	Owner   int   // 0 = no uncommitted change
	DelImg  []any // image the row had when Owner deleted it (its index entries stay until Owner ends)
}

type MTable struct {
	Def  TableDef
	Rows []*MRow
}

type Model struct {
	Tables map[string]*MTable
	Order  []string
}

func NewModel() *Model { return &Model{Tables: map[string]*MTable{}} }

func (m *Model) Create(td TableDef) {
	m.Tables[td.Name] = &MTable{Def: td}
	m.Order = append(m.Order, td.Name)
}

// visible returns the image of r that transaction txn sees (nil: none).
func (r *MRow) visible(txn int) []any {
	if r.Owner == txn && txn != 0 {
		if r.PendDel {
			return nil
		}
		return r.Pend
	}
	return r.Com
}

// Effect is the model's verdict on one statement of transaction txn.
type Effect struct {
	Rows      Rows // expected answer of a query
	Conflict  bool // the statement writes a row that carries another transaction's uncommitted change: the engine must abort
	Matched   int  // rows selected by UPDATE/DELETE
	ReadOther bool // the statement had to look at a row with another transaction's pending change
}

func matches(td *TableDef, p Pred, row []any) bool { return p == nil || p.Eval(td, row) == True }

// Apply evaluates stmt for transaction txn (0 = auto-commit, applied directly to the committed state)
// and records its writes as pending changes of txn.
func (m *Model) Apply(txn int, s *Stmt) Effect {
	t := m.Tables[s.Table]
	td := &t.Def
	var eff Effect
	switch s.Kind {
	case "select":
		cols := s.Cols
		if len(cols) == 1 && cols[0] == "*" {
			cols = nil
			for _, c := range td.Cols {
				cols = append(cols, c.Name)
			}
		}
		eff.Rows = Rows{}
		for _, r := range t.Rows {
			img := r.visible(txn)
			if r.Owner != 0 && r.Owner != txn {
				eff.ReadOther = true
			}
			if img == nil || !matches(td, s.Where, img) {
				continue
			}
			out := make([]any, len(cols))
			for i, c := range cols {
				out[i] = img[td.ColIdx(c)]
			}
			eff.Rows = append(eff.Rows, out)
		}
	case "insert":
		for _, row := range s.Rows {
			full := make([]any, len(td.Cols))
			for i, c := range s.Cols {
				full[td.ColIdx(c)] = row[i]
			}
			nr := &MRow{}
			if txn == 0 {
				nr.Com = full
			} else {
				nr.Pend, nr.Owner = full, txn
			}
			t.Rows = append(t.Rows, nr)
		}
	case "update", "delete":
		for _, r := range t.Rows {
			img := r.visible(txn)
			if r.Owner != 0 && r.Owner != txn {
				eff.ReadOther = true
			}
			if img == nil || !matches(td, s.Where, img) {
				continue
			}
			eff.Matched++
			if r.Owner != 0 && r.Owner != txn {
				eff.Conflict = true
				continue
			}
			var ni []any
			if s.Kind == "update" {
				ni = append([]any{}, img...)
				for _, it := range s.Set {
					ni[td.ColIdx(it.Col)] = it.Val
				}
			}
			if txn == 0 {
				r.Com = ni
			} else {
				r.Owner = txn
				r.Pend, r.PendDel = ni, s.Kind == "delete"
				if s.Kind == "delete" {
					r.DelImg = img
				}
			}
		}
		m.gc(t)
	}
	return eff
}

func (m *Model) gc(t *MTable) {
	out := t.Rows[:0]
	for _, r := range t.Rows {
		if r.Com == nil && r.Owner == 0 {
			continue
		}
		out = append(out, r)
	}
	t.Rows = out
}

func (m *Model) Commit(txn int) {
	for _, t := range m.Tables {
		for _, r := range t.Rows {
			if r.Owner == txn {
				if r.PendDel {
					r.Com = nil
				} else {
					r.Com = r.Pend
				}
				r.Pend, r.PendDel, r.Owner, r.DelImg = nil, false, 0, nil
			}
		}
		m.gc(t)
	}
}

func (m *Model) Abort(txn int) {
	for _, t := range m.Tables {
		for _, r := range t.Rows {
			if r.Owner == txn {
				r.Pend, r.PendDel, r.Owner, r.DelImg = nil, false, 0, nil
			}
		}
		m.gc(t)
	}
}

// Committed returns the committed rows of a table.
func (m *Model) Committed(table string) Rows {
	out := Rows{}
	for _, r := range m.Tables[table].Rows {
		if r.Com != nil {
			out = append(out, r.Com)
		}
	}
	return out
}

// Clone copies the model (rows are immutable once stored, so images are shared).
func (m *Model) Clone() *Model {
	c := NewModel()
	c.Order = append([]string{}, m.Order...)
	for n, t := range m.Tables {
		nt := &MTable{Def: t.Def}
		for _, r := range t.Rows {
			cp := *r
			nt.Rows = append(nt.Rows, &cp)
		}
		c.Tables[n] = nt
	}
	return c
}
