package props

// C08 — write-ahead discipline at the storage boundary: an invariant monitor over the I/O traces of
// every explored history (the same histories as C01/C02: every pool size, checkpoint placement and
// eviction pattern they contain), evaluated at EVERY event of every trace.

import (
	"math"
	"encoding/json"
	"fmt"
	"os"
	"path/filepath"
	"strings"
	"time"

	"github.com/ryogrid/SamehadaDB/lib/common"
	"github.com/ryogrid/SamehadaDB/lib/recovery"
	"github.com/ryogrid/SamehadaDB/lib/recovery/log_recovery"
	"github.com/ryogrid/SamehadaDB/lib/storage/access"
	"github.com/ryogrid/SamehadaDB/lib/storage/page"
	"github.com/ryogrid/SamehadaDB/lib/types"

	"verif/core"
)

var c08Parser *log_recovery.LogRecovery

type walState struct {
	log        []byte
	parsed     int              // bytes of log parsed so far (record boundary)
	maxLSN     int32            // highest LSN of a complete record on stable storage
	commits    map[int32]bool   // transactions whose COMMIT record is on stable storage
	lastLSN    map[int32]int32  // per transaction: LSN of its last record
	violations []crashFinding
	// content rule: a heap page image may differ from the previous durable image of that page only in
	// places that a record on stable storage speaks about
	mentions map[[2]int32]int    // (page, slot) -> number of durable records about that row id
	links    map[[2]int32]bool   // (prev page, new page) of durable NewTablePage records
	lastImg  map[int32][]byte    // last image of each heap page that reached the data file
	seenAt   map[[2]int32]int    // mentions[(page,slot)] when the page was last written
	noOrder  bool                // recovery traces: see walMonitor
}

// feed parses newly appended log bytes with the repository's own record parser.
func (w *walState) feed(ctx string) {
	if c08Parser == nil {
		c08Parser = log_recovery.NewLogRecovery(nil, nil, nil)
	}
	for w.parsed < len(w.log) {
		var rec recovery.LogRecord
		ok := false
		if f := guard(func() { ok = c08Parser.DeserializeLogRecord(w.log[w.parsed:], &rec) }); f != nil {
			w.violations = append(w.violations, crashFinding{"C08", "log-not-parsable", fmt.Sprintf("%s: the repository's record parser panics on the log at offset %d: %s", ctx, w.parsed, f.String())})
			return
		}
		if !ok {
			w.violations = append(w.violations, crashFinding{"C08", "log-not-parsable", fmt.Sprintf("%s: after this log write the log file does not end at a record boundary (%d trailing bytes at offset %d)", ctx, len(w.log)-w.parsed, w.parsed)})
			return
		}
		if rec.Size < 20 {
			w.violations = append(w.violations, crashFinding{"C08", "log-not-parsable", fmt.Sprintf("%s: record of size %d at offset %d", ctx, rec.Size, w.parsed)})
			return
		}
		lsn, txn := int32(rec.Lsn), int32(rec.TxnID)
		if lsn >= 0 && (w.noOrder || txn == math.MaxInt32) {
			// (records of the system pseudo-transaction - page deallocation / reuse, graceful shutdown - carry
			// the id MaxInt32 and are not chained: the order clause is about transactions)
			if lsn > w.maxLSN {
				w.maxLSN = lsn
			}
		} else if lsn >= 0 {
			if prev, ok := w.lastLSN[txn]; ok {
				if lsn <= prev {
					w.violations = append(w.violations, crashFinding{"C08", "lsn-order", fmt.Sprintf("%s: transaction %d record LSN %d follows LSN %d", ctx, txn, lsn, prev)})
				}
				if int32(rec.PrevLSN) != prev {
					w.violations = append(w.violations, crashFinding{"C08", "prevlsn-chain", fmt.Sprintf("%s: transaction %d record LSN %d has prevLSN %d, its previous record is LSN %d", ctx, txn, lsn, rec.PrevLSN, prev)})
				}
			} else if rec.PrevLSN != -1 && rec.LogRecordType != recovery.GracefulShutdown {
				w.violations = append(w.violations, crashFinding{"C08", "prevlsn-chain", fmt.Sprintf("%s: first record of transaction %d (LSN %d) has prevLSN %d", ctx, txn, lsn, rec.PrevLSN)})
			}
			w.lastLSN[txn] = lsn
			if lsn > w.maxLSN {
				w.maxLSN = lsn
			}
		}
		switch rec.LogRecordType {
		case recovery.COMMIT:
			w.commits[txn] = true
		case recovery.INSERT:
			w.mentions[[2]int32{int32(rec.InsertRID.PageID), int32(rec.InsertRID.SlotNum)}]++
		case recovery.MARKDELETE, recovery.APPLYDELETE, recovery.ROLLBACKDELETE:
			w.mentions[[2]int32{int32(rec.DeleteRID.PageID), int32(rec.DeleteRID.SlotNum)}]++
		case recovery.UPDATE:
			w.mentions[[2]int32{int32(rec.UpdateRID.PageID), int32(rec.UpdateRID.SlotNum)}]++
		case recovery.NewTablePage:
			w.links[[2]int32{int32(rec.PrevPageID), int32(rec.PageID)}] = true
		}
		w.parsed += int(rec.Size)
	}
}

// asTablePage wraps a page image so that it is read through the repository's own accessors (the check
// does not depend on the byte layout of table pages).
func asTablePage(pg int32, img []byte) *access.TablePage {
	var arr [common.PageSize]byte
	copy(arr[:], img)
	return access.CastPageAsTablePage(page.New(types.PageID(pg), false, &arr))
}

// slotContent: what slot s of a table page image holds (size word incl. the delete mark + the row bytes),
// "" if the image has no such slot. Offsets are not part of it: compaction moves bytes without changing rows.
func slotContent(tp *access.TablePage, s int) string {
	if tp == nil || s >= int(tp.GetTupleCount()) {
		return ""
	}
	off := int(tp.GetTupleOffsetAtSlot(uint32(s)))
	sz := tp.GetTupleSize(uint32(s))
	real := int(access.UnsetDeletedFlag(sz))
	if off == 0 && real == 0 {
		return "empty-slot"
	}
	if off+real > len(tp.Data()) {
		return fmt.Sprintf("size=%#x@bad-offset", sz)
	}
	return fmt.Sprintf("size=%#x:%x", sz, tp.Data()[off:off+real])
}

// contentRule compares the image being written with the previous durable image of the page.
func (w *walState) contentRule(hr *HistoryRun, pg int32, img []byte, ctx string) {
	prevImg, ok := w.lastImg[pg]
	if !ok {
		if lo := int(pg) * common.PageSize; lo+common.PageSize <= len(hr.Base.DB) {
			prevImg = hr.Base.DB[lo : lo+common.PageSize]
		}
	}
	cur := asTablePage(pg, img)
	var prev *access.TablePage
	np := 0
	// a page id that did not hold this table page before (never written, or zeroes) has no previous rows
	if prevImg != nil && (ok || asTablePage(pg, prevImg).GetPageID() == types.PageID(pg)) {
		prev = asTablePage(pg, prevImg)
		np = int(prev.GetTupleCount())
	}
	ni := int(cur.GetTupleCount())
	for s := 0; s < max(np, ni) && s < 500; s++ {
		key := [2]int32{pg, int32(s)}
		if slotContent(prev, s) != slotContent(cur, s) && w.mentions[key] <= w.seenAt[key] {
			w.violations = append(w.violations, crashFinding{"C08", "page-change-without-durable-record/row/" + ctx,
				fmt.Sprintf("heap page %d written: slot %d differs from the last image of the page on disk, but no log record about row id (%d,%d) has reached stable storage since then (log ends at LSN %d; %s)", pg, s, pg, s, w.maxLSN, ctx)})
		}
		w.seenAt[key] = w.mentions[key]
	}
	next := int32(cur.GetNextPageID())
	prevNext := int32(-1)
	if prev != nil {
		prevNext = int32(prev.GetNextPageID())
	}
	if next != prevNext && next >= 0 && !w.links[[2]int32{pg, next}] {
		w.violations = append(w.violations, crashFinding{"C08", "page-change-without-durable-record/next-page-link/" + ctx,
			fmt.Sprintf("heap page %d written with next-page link %d (on disk before: %d) while no NewTablePage(prev=%d, page=%d) record is on stable storage (log ends at LSN %d; %s)", pg, next, prevNext, pg, next, w.maxLSN, ctx)})
	}
	w.lastImg[pg] = append([]byte{}, img...)
}

// monitor evaluates the write-ahead invariants over one recorded history.
func walMonitor(hr *HistoryRun) []crashFinding {
	w := &walState{log: append([]byte{}, hr.Base.Log...), maxLSN: -1, commits: map[int32]bool{}, lastLSN: map[int32]int32{},
		mentions: map[[2]int32]int{}, links: map[[2]int32]bool{}, lastImg: map[int32][]byte{}, seenAt: map[[2]int32]int{}}
	w.feed("seed")
	w.violations = nil // the seed is outside the quantifier (and its first BEGIN belongs to the start-up transaction)
	if hr.Label != "" {
		// a restart is an epoch boundary: the new life of the engine numbers its own transactions from 1 again
		// (its start-up transaction shares id 1 with the start-up transaction of the crashed life and starts at
		// LSN 0), while the rollback records it writes for losers continue the losers' chains of the crashed
		// life. Which record belongs to which transaction is not decidable from (id, LSN) alone until the log
		// is dropped at the end of recovery: the per-transaction order clause is checked within one life of
		// the engine only; parsability, the page-LSN rule and the content rule apply to recovery as well
		w.noOrder = true
	}
	for i := range hr.Events {
		ev := &hr.Events[i]
		ctx := hr.ctxAt(i + 1)
		if hr.Label != "" {
			ctx = hr.Label
		}
		switch ev.Kind {
		case 'L':
			if ev.Off > int64(len(w.log)) {
				w.log = append(w.log, make([]byte, ev.Off-int64(len(w.log)))...) // the gap the write left
			}
			w.log = append(w.log, ev.Data...)
			w.feed(ctx)
		case 'G':
			w.log, w.parsed = nil, 0
		case 'T':
			if int(ev.Page) < len(w.log) {
				w.log = w.log[:ev.Page]
				if w.parsed > len(w.log) {
					w.parsed = len(w.log)
				}
			}
		case 'P':
			if hr.HeapPages[ev.Page] {
				lsn := int32(asTablePage(ev.Page, ev.Data).GetLSN())
				if lsn > w.maxLSN {
					w.violations = append(w.violations, crashFinding{"C08", "page-ahead-of-log/" + ctx,
						fmt.Sprintf("heap page %d written with page LSN %d while the log on stable storage ends at LSN %d (%s)", ev.Page, lsn, w.maxLSN, ctx)})
				}
				w.contentRule(hr, ev.Page, ev.Data, ctx)
			}
		case 'M':
			var t int
			if n, _ := fmt.Sscanf(ev.Mark, "commit-return %d", &t); n == 1 && hr.Writers[t] {
				if !w.commits[hr.TxnIDs[t]] {
					w.violations = append(w.violations, crashFinding{"C08", "commit-returned-before-commit-record-durable",
						fmt.Sprintf("commit of T%d (engine txn %d, a writing transaction) returned but its COMMIT record is not on stable storage", t, hr.TxnIDs[t])})
				}
			}
		}
	}
	return w.violations
}

// ---- concurrent executions (Engine C): the same monitor over the I/O trace of every schedule -----------------

// c08ConcScenarios: two (three) goroutines, each one explicit writing transaction (update of its own row or
// insert), pools of 32 and 10 frames (the small pool evicts while the others append log records).
func c08ConcScenarios(thorough bool) []*core.Scenario {
	k := func(v int) any { return int32(v) }
	upd := func(tag string, key int) *Stmt {
		return &Stmt{Kind: "update", Table: "t", Set: []SetItem{{"v", tag}}, Where: Leaf{"k", "=", k(key)}}
	}
	ins := func(key int, v string) *Stmt {
		return &Stmt{Kind: "insert", Table: "t", Cols: []string{"k", "v"}, Rows: [][]any{{k(key), v}}}
	}
	type sc struct {
		name  string
		memKB int
		wide  bool
		th    [][]*Stmt
	}
	list := []sc{
		{"update(1)||update(3)", 128, false, [][]*Stmt{{upd("w1", 1)}, {upd("w2", 3)}}},
		{"insert||update", 128, false, [][]*Stmt{{ins(7, "n1")}, {upd("w2", 3)}}},
		{"wide-insert||wide-insert/10-frames", 40, true, [][]*Stmt{{ins(11, bigStr("A", 600))}, {ins(12, bigStr("B", 600))}}},
	}
	if thorough {
		list = append(list, sc{"update||update||insert", 128, false, [][]*Stmt{{upd("w1", 1)}, {upd("w2", 3)}, {ins(7, "n3")}}})
	}
	var out []*core.Scenario
	for _, x := range list {
		x := x
		out = append(out, &core.Scenario{
			Name: "c08/conc/" + x.name, Bound: 1, Params: x.name,
			TolerateDivergence: x.memKB < 64,
			Setup: func() *core.Harness {
				dir := NewDir("c08c")
				path := dir + "/d"
				db, rec, f := OpenRecorded(path, x.memKB, false)
				if f != nil {
					panic(f.String())
				}
				td := sqlTable()
				db.MustAuto(td.CreateSQL())
				if x.wide {
					for i := 1; i <= 7; i++ {
						db.MustAuto(ins(i, bigStr(fmt.Sprintf("s%d", i), 600)).SQL())
					}
				} else {
					for _, st := range sqlSeed3() {
						db.MustAuto(st.SQL())
					}
				}
				hr := &HistoryRun{MemKB: x.memKB, HeapPages: map[int32]bool{}, Writers: map[int]bool{}, TxnIDs: map[int]int32{}, dir: dir}
				hr.Base = readImage(path)
				rec.On = true
				fails := make([]string, len(x.th))
				h := &core.Harness{}
				for ti := range x.th {
					ti := ti
					h.Names = append(h.Names, fmt.Sprintf("W%d", ti))
					h.Threads = append(h.Threads, func() {
						t := db.Begin()
						hr.TxnIDs[ti+1] = int32(t.T.GetTransactionID())
						for _, st := range x.th[ti] {
							r := t.Exec(st.SQL())
							if r.Fail != nil || r.Err != "" {
								fails[ti] = fmt.Sprintf("%+v", r)
								return
							}
							if r.Aborted {
								t.Abort()
								return
							}
						}
						hr.Writers[ti+1] = len(t.T.GetWriteSet()) > 0
						if f := t.Commit(); f != nil {
							fails[ti] = f.String()
							return
						}
						rec.Mark(fmt.Sprintf("commit-return %d", ti+1))
					})
				}
				h.Check = func(xi *core.ExecInfo) (*core.Violation, string) {
					mk := func(clause, detail string) *core.Violation {
						return &core.Violation{Property: "C08", Signature: "wal/conc/" + clause + "/" + x.name, Detail: x.name + "\n" + detail}
					}
					if len(xi.Panics) > 0 {
						return mk("panic@"+panicSite(xi.Panics[0]), strings.Join(xi.Panics, "\n")), "panic"
					}
					if xi.Deadlock {
						return mk("deadlock", fmt.Sprintf("%v", xi.Blocked)), "deadlock"
					}
					for ti, fl := range fails {
						if fl != "" {
							return mk("statement-failed", fmt.Sprintf("W%d: %s", ti, fl)), "failed"
						}
					}
					rec.On = false
					hr.Events = rec.Events
					guard(func() {
						for _, tm := range db.Cat().GetAllTables() {
							if *tm.GetTableName() == "columns_catalog" {
								continue
							}
							pid := tm.Table().GetFirstPageID()
							for n := 0; pid.IsValid() && n < 256; n++ {
								hr.HeapPages[int32(pid)] = true
								pg := db.BPM().FetchPage(pid)
								if pg == nil {
									break
								}
								next := access.CastPageAsTablePage(pg).GetNextPageID()
								db.BPM().UnpinPage(pid, false)
								pid = next
							}
						}
					})
					fs := walMonitor(hr)
					if len(fs) > 0 {
						return mk(fs[0].Clause, fs[0].Detail), fs[0].Clause
					}
					return nil, fmt.Sprintf("ok:log-writes=%d", countKind(hr.Events, 'L'))
				}
				h.Cleanup = func() { db.Kill(); removeAll(dir) }
				return h
			},
		})
	}
	return out
}

func countKind(evs []IOEvent, k byte) int {
	n := 0
	for _, e := range evs {
		if e.Kind == k {
			n++
		}
	}
	return n
}

func c08Run(c *core.Ctx) {
	for _, sc := range c08ConcScenarios(c.Thorough()) {
		if c.Expired() {
			break
		}
		if c.Thorough() {
			sc.Bound = 2
		}
		core.ExploreSched(c, sc)
	}
	res := c.Res
	seeds := crashSeeds(c.Thorough())
	item := 0
	nEv := int64(0)
	for _, seed := range seeds {
		hs := crashHistories(seed, c.Thorough())
		for hi, h := range hs {
			item++
			if !c.Mine(item) {
				continue
			}
			if c.Expired() {
				return
			}
			hr := RunHistory(seed, h)
			res.Traces++
			res.States++
			pw, lw := 0, 0
			for _, ev := range hr.Events {
				if ev.Kind == 'P' && hr.HeapPages[ev.Page] {
					pw++
				}
				if ev.Kind == 'L' {
					lw++
				}
			}
			nEv += int64(len(hr.Events))
			res.Transitions += int64(len(hr.Events))
			res.PerOp["heap-page-writes"] += int64(pw)
			res.PerOp["log-writes"] += int64(lw)
			fs := walMonitor(hr)
			if len(fs) == 0 {
				res.Outcome(fmt.Sprintf("ok:heap-page-writes=%d", min(pw, 3)))
			}
			for _, f := range fs {
				res.Outcome(f.Clause)
				res.Violate(&core.Violation{Property: "C08", Signature: "wal/" + f.Clause + "/" + hr.KindList(),
					Detail: fmt.Sprintf("%s\nseed %s; history:\n    %s", f.Detail, seed.Name, strings.Join(hr.Executed, "\n    ")),
					Replay: map[string]any{"seed": seed.Name, "history_index": hi, "thorough_enumeration": c.Thorough(), "clause": f.Clause}})
			}
			if len(res.Samples) < 2 && pw > 0 {
				res.Sample(map[string]any{"seed": seed.Name, "history": hr.Executed, "trace": traceSig(hr, len(hr.Events))})
			}
			// the writes of RECOVERY obey the same rules: for every crash point that ends in a whole log or page
			// write, the start-up path is run under the recorder and its own trace is monitored (base = the crash
			// image; rolled-back pages must not reach the disk before the records that describe the rollback)
			if len(fs) == 0 && c08RecoveryPhase(seed, h) {
				for n := 1; n <= len(hr.Events); n++ {
					if k := hr.Events[n-1].Kind; k != 'L' && k != 'P' {
						continue
					}
					im := hr.ImageAt(CrashPoint{N: n, Cut: -1, Torn: -1})
					rec, heap, f := recoverTrace(im, seed.MemKB)
					res.PerOp["recovery-traces"]++
					if f != nil || rec == nil {
						continue // a restart that fails is C01's business
					}
					tr := &HistoryRun{Base: im, Events: rec.Events, HeapPages: heap, Label: "inside-recovery"}
					res.Transitions += int64(len(rec.Events))
					for _, f := range walMonitor(tr) {
						res.Outcome("recovery:" + f.Clause)
						res.Violate(&core.Violation{Property: "C08", Signature: "wal/recovery/" + f.Clause + "/" + hr.KindList(),
							Detail: fmt.Sprintf("%s\nseed %s; history:\n    %s\ncrash after %s; recovery trace: %v", f.Detail, seed.Name, strings.Join(hr.Executed, "\n    "), hr.Describe(CrashPoint{N: n, Cut: -1, Torn: -1}), traceSig(tr, len(tr.Events))),
							Replay: map[string]any{"seed": seed.Name, "history_index": hi, "thorough_enumeration": c.Thorough(), "clause": f.Clause, "recovery_after_events": n}})
					}
				}
			}
			hr.Cleanup()
		}
	}
}

func init() {
	core.Register(&core.Driver{
		Prop: "C08",
		Budget: func(tier string) time.Duration {
			if tier == "thorough" {
				return 25 * time.Minute
			}
			return 3 * time.Minute
		},
		Assume: []string{
			"log records are parsed with the repository's own LogRecovery.DeserializeLogRecord, so the record format is bound to the code",
			"user-table pages = pages of table heaps (walked through GetNextPageID at the end of each run); skip-list index pages reuse the LSN bytes as an update counter and are excluded, as are the catalog heaps",
			"the explored executions are the histories of C01/C02 (1-3 transactions, checkpoints, pool 32 KB and 128 KB, 4-6 seeds); every event of every trace is checked; Engine C adds concurrent histories under C19/C04",
		},
		Run: c08Run,
		Replay: func(raw json.RawMessage) (string, bool) {
			var rp struct {
				Seed     string `json:"seed"`
				Idx      int    `json:"history_index"`
				Thor     bool   `json:"thorough_enumeration"`
				Clause   string `json:"clause"`
				Scenario string `json:"scenario"`
				Choices  []int  `json:"choices"`
				RecAfter int    `json:"recovery_after_events"`
			}
			json.Unmarshal(raw, &rp)
			if rp.Scenario != "" {
				for _, sc := range c08ConcScenarios(true) {
					if sc.Name == rp.Scenario {
						x, v, out, div := core.RunSchedule(sc, rp.Choices)
						desc := fmt.Sprintf("%s: schedule of %d points -> %s %s", sc.Name, len(x.Trace), out, div)
						if v != nil {
							return desc + "\n" + v.Detail, true
						}
						return desc, false
					}
				}
				return "scenario not found: " + rp.Scenario, false
			}
			for _, seed := range crashSeeds(rp.Thor) {
				if seed.Name != rp.Seed {
					continue
				}
				hr := RunHistory(seed, crashHistories(seed, rp.Thor)[rp.Idx])
				defer hr.Cleanup()
				var sb strings.Builder
				fmt.Fprintf(&sb, "seed %s\nhistory:\n    %s\ntrace: %v\n", seed.Name, strings.Join(hr.Executed, "\n    "), traceSig(hr, len(hr.Events)))
				bad := false
				if rp.RecAfter > 0 && rp.RecAfter <= len(hr.Events) {
					im := hr.ImageAt(CrashPoint{N: rp.RecAfter, Cut: -1, Torn: -1})
					rec, heap, f := recoverTrace(im, seed.MemKB)
					if f != nil {
						return sb.String() + "restart fails: " + f.String(), false
					}
					tr := &HistoryRun{Base: im, Events: rec.Events, HeapPages: heap, Label: "inside-recovery"}
					fmt.Fprintf(&sb, "crash after %d events; recovery trace: %v\n", rp.RecAfter, traceSig(tr, len(tr.Events)))
					for _, f := range walMonitor(tr) {
						fmt.Fprintf(&sb, "%s: %s\n", f.Clause, f.Detail)
						bad = true
					}
					return sb.String(), bad
				}
				for _, f := range walMonitor(hr) {
					fmt.Fprintf(&sb, "%s: %s\n", f.Clause, f.Detail)
					bad = true
				}
				return sb.String(), bad
			}
			return "seed not found", false
		},
	})
}

// c08RecoveryPhase: which histories also get their recoveries monitored (all of them in the thorough tier; in
// the quick tier the ones that can leave a loser or an aborted transaction behind - something to undo).
func c08RecoveryPhase(seed *CrashSeed, h []HOp) bool {
	if strings.HasPrefix(seed.Name, "huge") {
		return false
	}
	return true
}

// recoverTrace runs the start-up path on a crash image under the I/O recorder and returns the recorded trace.
func recoverTrace(im *Image, memKB int) (*Recorder, map[int32]bool, *Failure) {
	recoverSeq++
	dir := filepath.Join(coreScratch(), fmt.Sprintf("rec-%d", recoverSeq))
	os.MkdirAll(dir, 0o755)
	defer os.RemoveAll(dir)
	path := dir + "/d"
	im.write(path)
	db, rec, f := OpenRecorded(path, memKB, true)
	if rec != nil {
		rec.On = false
	}
	if f != nil {
		return nil, nil, f
	}
	// which pages are heap pages of user tables in THIS recovered database (page ids that the history used
	// for a heap later may serve an index here)
	heap := map[int32]bool{}
	guard(func() {
		for _, tm := range db.Cat().GetAllTables() {
			if *tm.GetTableName() == "columns_catalog" {
				continue
			}
			pid := tm.Table().GetFirstPageID()
			for n := 0; pid.IsValid() && n < 256; n++ {
				heap[int32(pid)] = true
				pg := db.BPM().FetchPage(pid)
				if pg == nil {
					break
				}
				next := access.CastPageAsTablePage(pg).GetNextPageID()
				db.BPM().UnpinPage(pid, false)
				pid = next
			}
		}
	})
	db.Kill()
	return rec, heap, nil
}
