package props

// C08 — write-ahead discipline at the storage boundary: an invariant monitor over the I/O traces of
// every explored history (the same histories as C01/C02: every pool size, checkpoint placement and
// eviction pattern they contain), evaluated at EVERY event of every trace.

import (
	"encoding/json"
	"fmt"
	"strings"
	"time"

	"github.com/ryogrid/SamehadaDB/lib/common"
	"github.com/ryogrid/SamehadaDB/lib/recovery"
	"github.com/ryogrid/SamehadaDB/lib/recovery/log_recovery"
	"github.com/ryogrid/SamehadaDB/lib/storage/access"
	"github.com/ryogrid/SamehadaDB/lib/storage/page"
	"github.com/ryogrid/SamehadaDB/lib/types"

	"verif/core"
)

var c08Parser *log_recovery.LogRecovery

type walState struct {
	log        []byte
	parsed     int              // bytes of log parsed so far (record boundary)
	maxLSN     int32            // highest LSN of a complete record on stable storage
	commits    map[int32]bool   // transactions whose COMMIT record is on stable storage
	lastLSN    map[int32]int32  // per transaction: LSN of its last record
	violations []crashFinding
	// content rule: a heap page image may differ from the previous durable image of that page only in
	// places that a record on stable storage speaks about
	mentions map[[2]int32]int    // (page, slot) -> number of durable records about that row id
	links    map[[2]int32]bool   // (prev page, new page) of durable NewTablePage records
	lastImg  map[int32][]byte    // last image of each heap page that reached the data file
	seenAt   map[[2]int32]int    // mentions[(page,slot)] when the page was last written
}

// feed parses newly appended log bytes with the repository's own record parser.
func (w *walState) feed(ctx string) {
	if c08Parser == nil {
		c08Parser = log_recovery.NewLogRecovery(nil, nil, nil)
	}
	for w.parsed < len(w.log) {
		var rec recovery.LogRecord
		ok := false
		if f := guard(func() { ok = c08Parser.DeserializeLogRecord(w.log[w.parsed:], &rec) }); f != nil {
			w.violations = append(w.violations, crashFinding{"C08", "log-not-parsable", fmt.Sprintf("%s: the repository's record parser panics on the log at offset %d: %s", ctx, w.parsed, f.String())})
			return
		}
		if !ok {
			w.violations = append(w.violations, crashFinding{"C08", "log-not-parsable", fmt.Sprintf("%s: after this log write the log file does not end at a record boundary (%d trailing bytes at offset %d)", ctx, len(w.log)-w.parsed, w.parsed)})
			return
		}
		if rec.Size < 20 {
			w.violations = append(w.violations, crashFinding{"C08", "log-not-parsable", fmt.Sprintf("%s: record of size %d at offset %d", ctx, rec.Size, w.parsed)})
			return
		}
		lsn, txn := int32(rec.Lsn), int32(rec.TxnID)
		if lsn >= 0 {
			if prev, ok := w.lastLSN[txn]; ok {
				if lsn <= prev {
					w.violations = append(w.violations, crashFinding{"C08", "lsn-order", fmt.Sprintf("%s: transaction %d record LSN %d follows LSN %d", ctx, txn, lsn, prev)})
				}
				if int32(rec.PrevLSN) != prev {
					w.violations = append(w.violations, crashFinding{"C08", "prevlsn-chain", fmt.Sprintf("%s: transaction %d record LSN %d has prevLSN %d, its previous record is LSN %d", ctx, txn, lsn, rec.PrevLSN, prev)})
				}
			} else if rec.PrevLSN != -1 && rec.LogRecordType != recovery.GracefulShutdown {
				w.violations = append(w.violations, crashFinding{"C08", "prevlsn-chain", fmt.Sprintf("%s: first record of transaction %d (LSN %d) has prevLSN %d", ctx, txn, lsn, rec.PrevLSN)})
			}
			w.lastLSN[txn] = lsn
			if lsn > w.maxLSN {
				w.maxLSN = lsn
			}
		}
		switch rec.LogRecordType {
		case recovery.COMMIT:
			w.commits[txn] = true
		case recovery.INSERT:
			w.mentions[[2]int32{int32(rec.InsertRID.PageID), int32(rec.InsertRID.SlotNum)}]++
		case recovery.MARKDELETE, recovery.APPLYDELETE, recovery.ROLLBACKDELETE:
			w.mentions[[2]int32{int32(rec.DeleteRID.PageID), int32(rec.DeleteRID.SlotNum)}]++
		case recovery.UPDATE:
			w.mentions[[2]int32{int32(rec.UpdateRID.PageID), int32(rec.UpdateRID.SlotNum)}]++
		case recovery.NewTablePage:
			w.links[[2]int32{int32(rec.PrevPageID), int32(rec.PageID)}] = true
		}
		w.parsed += int(rec.Size)
	}
}

// asTablePage wraps a page image so that it is read through the repository's own accessors (the check
// does not depend on the byte layout of table pages).
func asTablePage(pg int32, img []byte) *access.TablePage {
	var arr [common.PageSize]byte
	copy(arr[:], img)
	return access.CastPageAsTablePage(page.New(types.PageID(pg), false, &arr))
}

// slotContent: what slot s of a table page image holds (size word incl. the delete mark + the row bytes),
// "" if the image has no such slot. Offsets are not part of it: compaction moves bytes without changing rows.
func slotContent(tp *access.TablePage, s int) string {
	if tp == nil || s >= int(tp.GetTupleCount()) {
		return ""
	}
	off := int(tp.GetTupleOffsetAtSlot(uint32(s)))
	sz := tp.GetTupleSize(uint32(s))
	real := int(access.UnsetDeletedFlag(sz))
	if off == 0 && real == 0 {
		return "empty-slot"
	}
	if off+real > len(tp.Data()) {
		return fmt.Sprintf("size=%#x@bad-offset", sz)
	}
	return fmt.Sprintf("size=%#x:%x", sz, tp.Data()[off:off+real])
}

// contentRule compares the image being written with the previous durable image of the page.
func (w *walState) contentRule(hr *HistoryRun, pg int32, img []byte, ctx string) {
	prevImg, ok := w.lastImg[pg]
	if !ok {
		if lo := int(pg) * common.PageSize; lo+common.PageSize <= len(hr.Base.DB) {
			prevImg = hr.Base.DB[lo : lo+common.PageSize]
		}
	}
	cur := asTablePage(pg, img)
	var prev *access.TablePage
	np := 0
	// a page id that did not hold this table page before (never written, or zeroes) has no previous rows
	if prevImg != nil && (ok || asTablePage(pg, prevImg).GetPageID() == types.PageID(pg)) {
		prev = asTablePage(pg, prevImg)
		np = int(prev.GetTupleCount())
	}
	ni := int(cur.GetTupleCount())
	for s := 0; s < max(np, ni) && s < 500; s++ {
		key := [2]int32{pg, int32(s)}
		if slotContent(prev, s) != slotContent(cur, s) && w.mentions[key] <= w.seenAt[key] {
			w.violations = append(w.violations, crashFinding{"C08", "page-change-without-durable-record/row/" + ctx,
				fmt.Sprintf("heap page %d written: slot %d differs from the last image of the page on disk, but no log record about row id (%d,%d) has reached stable storage since then (log ends at LSN %d; %s)", pg, s, pg, s, w.maxLSN, ctx)})
		}
		w.seenAt[key] = w.mentions[key]
	}
	next := int32(cur.GetNextPageID())
	prevNext := int32(-1)
	if prev != nil {
		prevNext = int32(prev.GetNextPageID())
	}
	if next != prevNext && next >= 0 && !w.links[[2]int32{pg, next}] {
		w.violations = append(w.violations, crashFinding{"C08", "page-change-without-durable-record/next-page-link/" + ctx,
			fmt.Sprintf("heap page %d written with next-page link %d (on disk before: %d) while no NewTablePage(prev=%d, page=%d) record is on stable storage (log ends at LSN %d; %s)", pg, next, prevNext, pg, next, w.maxLSN, ctx)})
	}
	w.lastImg[pg] = append([]byte{}, img...)
}

// monitor evaluates the write-ahead invariants over one recorded history.
func walMonitor(hr *HistoryRun) []crashFinding {
	w := &walState{log: append([]byte{}, hr.Base.Log...), maxLSN: -1, commits: map[int32]bool{}, lastLSN: map[int32]int32{},
		mentions: map[[2]int32]int{}, links: map[[2]int32]bool{}, lastImg: map[int32][]byte{}, seenAt: map[[2]int32]int{}}
	w.feed("seed")
	w.violations = nil // the seed is outside the quantifier (and its first BEGIN belongs to the start-up transaction)
	for i := range hr.Events {
		ev := &hr.Events[i]
		ctx := hr.ctxAt(i + 1)
		switch ev.Kind {
		case 'L':
			w.log = append(w.log, ev.Data...)
			w.feed(ctx)
		case 'G':
			w.log, w.parsed = nil, 0
		case 'P':
			if hr.HeapPages[ev.Page] {
				lsn := int32(asTablePage(ev.Page, ev.Data).GetLSN())
				if lsn > w.maxLSN {
					w.violations = append(w.violations, crashFinding{"C08", "page-ahead-of-log/" + ctx,
						fmt.Sprintf("heap page %d written with page LSN %d while the log on stable storage ends at LSN %d (%s)", ev.Page, lsn, w.maxLSN, ctx)})
				}
				w.contentRule(hr, ev.Page, ev.Data, ctx)
			}
		case 'M':
			var t int
			if n, _ := fmt.Sscanf(ev.Mark, "commit-return %d", &t); n == 1 && hr.Writers[t] {
				if !w.commits[hr.TxnIDs[t]] {
					w.violations = append(w.violations, crashFinding{"C08", "commit-returned-before-commit-record-durable",
						fmt.Sprintf("commit of T%d (engine txn %d, a writing transaction) returned but its COMMIT record is not on stable storage", t, hr.TxnIDs[t])})
				}
			}
		}
	}
	return w.violations
}

func c08Run(c *core.Ctx) {
	res := c.Res
	seeds := crashSeeds(c.Thorough())
	item := 0
	nEv := int64(0)
	for _, seed := range seeds {
		hs := crashHistories(seed, c.Thorough())
		for hi, h := range hs {
			item++
			if !c.Mine(item) {
				continue
			}
			if c.Expired() {
				return
			}
			hr := RunHistory(seed, h)
			res.Traces++
			res.States++
			pw, lw := 0, 0
			for _, ev := range hr.Events {
				if ev.Kind == 'P' && hr.HeapPages[ev.Page] {
					pw++
				}
				if ev.Kind == 'L' {
					lw++
				}
			}
			nEv += int64(len(hr.Events))
			res.Transitions += int64(len(hr.Events))
			res.PerOp["heap-page-writes"] += int64(pw)
			res.PerOp["log-writes"] += int64(lw)
			fs := walMonitor(hr)
			if len(fs) == 0 {
				res.Outcome(fmt.Sprintf("ok:heap-page-writes=%d", min(pw, 3)))
			}
			for _, f := range fs {
				res.Outcome(f.Clause)
				res.Violate(&core.Violation{Property: "C08", Signature: "wal/" + f.Clause + "/" + hr.KindList(),
					Detail: fmt.Sprintf("%s\nseed %s; history:\n    %s", f.Detail, seed.Name, strings.Join(hr.Executed, "\n    ")),
					Replay: map[string]any{"seed": seed.Name, "history_index": hi, "thorough_enumeration": c.Thorough(), "clause": f.Clause}})
			}
			if len(res.Samples) < 2 && pw > 0 {
				res.Sample(map[string]any{"seed": seed.Name, "history": hr.Executed, "trace": traceSig(hr, len(hr.Events))})
			}
			hr.Cleanup()
		}
	}
}

func init() {
	core.Register(&core.Driver{
		Prop: "C08",
		Budget: func(tier string) time.Duration {
			if tier == "thorough" {
				return 25 * time.Minute
			}
			return 3 * time.Minute
		},
		Assume: []string{
			"log records are parsed with the repository's own LogRecovery.DeserializeLogRecord, so the record format is bound to the code",
			"user-table pages = pages of table heaps (walked through GetNextPageID at the end of each run); skip-list index pages reuse the LSN bytes as an update counter and are excluded, as are the catalog heaps",
			"the explored executions are the histories of C01/C02 (1-3 transactions, checkpoints, pool 32 KB and 128 KB, 4-6 seeds); every event of every trace is checked; Engine C adds concurrent histories under C19/C04",
		},
		Run: c08Run,
		Replay: func(raw json.RawMessage) (string, bool) {
			var rp struct {
				Seed   string `json:"seed"`
				Idx    int    `json:"history_index"`
				Thor   bool   `json:"thorough_enumeration"`
				Clause string `json:"clause"`
			}
			json.Unmarshal(raw, &rp)
			for _, seed := range crashSeeds(rp.Thor) {
				if seed.Name != rp.Seed {
					continue
				}
				hr := RunHistory(seed, crashHistories(seed, rp.Thor)[rp.Idx])
				defer hr.Cleanup()
				var sb strings.Builder
				fmt.Fprintf(&sb, "seed %s\nhistory:\n    %s\ntrace: %v\n", seed.Name, strings.Join(hr.Executed, "\n    "), traceSig(hr, len(hr.Events)))
				bad := false
				for _, f := range walMonitor(hr) {
					fmt.Fprintf(&sb, "%s: %s\n", f.Clause, f.Detail)
					bad = true
				}
				return sb.String(), bad
			}
			return "seed not found", false
		},
	})
}
