package props

// C16, concurrent part: 2-3 real goroutines issue lock requests against one real LockManager under
// the controlled scheduler, ALL interleavings (no preemption bound; the lock-manager mutex and the
// transaction-manager latches are the only scheduling points). Oracle: the results of every schedule
// equal those of some sequential order of the same calls on the compatibility model, i.e. each
// request is atomic - which lifts the sequential result to "concurrently from many goroutines".

import (
	"encoding/json"
	"fmt"
	"strings"

	"verif/core"
)

type c16Model struct {
	mode [c16Txns][c16Rows]int
}

// step applies one request of thread t to the model and returns its result.
func (m *c16Model) step(t int, op string) string {
	r := int(op[1] - '0')
	othersS, othersX := false, false
	if op[0] != 'C' {
		for o := 0; o < c16Txns; o++ {
			if o != t {
				if m.mode[o][r] == 1 {
					othersS = true
				}
				if m.mode[o][r] == 2 {
					othersX = true
				}
			}
		}
	}
	switch op[0] {
	case 'S':
		if othersX {
			return "deny"
		}
		if m.mode[t][r] < 1 {
			m.mode[t][r] = 1
		}
		return "grant"
	case 'X':
		if othersX || othersS {
			return "deny"
		}
		m.mode[t][r] = 2
		return "grant"
	case 'U':
		if m.mode[t][r] == 0 {
			return "skip"
		}
		if othersX || othersS {
			return "deny"
		}
		m.mode[t][r] = 2
		return "grant"
	case 'C':
		for r := range m.mode[t] {
			m.mode[t][r] = 0
		}
		return "done"
	}
	panic("bad op")
}

func (m *c16Model) str() string {
	var sb strings.Builder
	for t := 0; t < c16Txns; t++ {
		for r := 0; r < c16Rows; r++ {
			fmt.Fprintf(&sb, "%d", m.mode[t][r])
		}
	}
	return sb.String()
}

// linearizable: is there an interleaving of the programs (program order kept) whose model results and
// final holder matrix equal the observed ones?
func c16Linearizable(progs [][]string, results [][]string, final string) bool {
	pos := make([]int, len(progs))
	var rec func(m c16Model) bool
	rec = func(m c16Model) bool {
		done := true
		for t := range progs {
			if pos[t] < len(progs[t]) {
				done = false
				m2 := m
				got := m2.step(t, progs[t][pos[t]])
				if got == results[t][pos[t]] {
					pos[t]++
					if rec(m2) {
						pos[t]--
						return true
					}
					pos[t]--
				}
			}
		}
		if done {
			return m.str() == final
		}
		return false
	}
	return rec(c16Model{})
}

func c16Scenario(progs [][]string) *core.Scenario {
	name := "c16conc"
	return &core.Scenario{
		Name:  name,
		Bound:  -1,
		NoCD:   true,
		Params: progs,
		Setup: func() *core.Harness {
			in := newC16()
			results := make([][]string, len(progs))
			h := &core.Harness{}
			for t := range progs {
				t := t
				results[t] = make([]string, len(progs[t]))
				h.Threads = append(h.Threads, func() {
					for i, op := range progs[t] {
						r := int(op[1] - '0')
						res := ""
						switch op[0] {
						case 'S':
							res = gd(in.lm.LockShared(in.txns[t], &in.rids[r]))
						case 'X':
							res = gd(in.lm.LockExclusive(in.txns[t], &in.rids[r]))
						case 'U':
							if in.txns[t].IsSharedLocked(&in.rids[r]) || in.txns[t].IsExclusiveLocked(&in.rids[r]) {
								if in.txns[t].IsSharedLocked(&in.rids[r]) {
									res = gd(in.lm.LockUpgrade(in.txns[t], &in.rids[r]))
								} else {
									// holds X only (acquired directly): TablePage would not call the lock manager at all
									res = "grant"
								}
							} else {
								res = "skip"
							}
						case 'C':
							in.tm.Commit(nil, in.txns[t])
							res = "done"
						}
						results[t][i] = res
					}
				})
			}
			h.Check = func(x *core.ExecInfo) (*core.Violation, string) {
				sig := func(clause string) string { return "conc/" + clause + "/" + core.JS(progs) }
				if len(x.Panics) > 0 {
					return &core.Violation{Property: "C16", Signature: sig("panic"), Detail: strings.Join(x.Panics, "\n")}, "panic"
				}
				if x.Deadlock || x.Horizon {
					return &core.Violation{Property: "C16", Signature: sig("deadlock"), Detail: fmt.Sprintf("deadlock=%v horizon=%v blocked=%v", x.Deadlock, x.Horizon, x.Blocked)}, "deadlock"
				}
				// committed threads were replaced by nothing: observe through the transactions that are still open
				final := ""
				for t := 0; t < c16Txns; t++ {
					committed := t < len(progs) && len(progs[t]) > 0 && progs[t][len(progs[t])-1][0] == 'C'
					for r := 0; r < c16Rows; r++ {
						m := 0
						if !committed {
							if in.txns[t].IsExclusiveLocked(&in.rids[r]) {
								m = 2
							} else if in.txns[t].IsSharedLocked(&in.rids[r]) {
								m = 1
							}
						}
						final += fmt.Sprint(m)
					}
				}
				out := core.JS(results)
				if !c16Linearizable(progs, results, final) {
					return &core.Violation{Property: "C16", Signature: sig("not-atomic"),
						Detail: fmt.Sprintf("programs %v: results %v final holders %s are not those of any sequential order of the same calls", progs, results, final)}, out
				}
				return nil, out
			}
			return h
		},
	}
}

func gd(b bool) string {
	if b {
		return "grant"
	}
	return "deny"
}

// c16Programs enumerates the thread programs of the concurrent part.
func c16Programs(thorough bool) [][][]string {
	alpha := []string{"S0", "X0", "U0", "S1", "X1", "C_"}
	var two [][]string
	for _, a := range alpha {
		for _, b := range alpha {
			if a == "C_" {
				continue // nothing after commit
			}
			two = append(two, []string{a, b})
		}
	}
	var out [][][]string
	for _, p := range two {
		for _, q := range two {
			out = append(out, [][]string{p, q})
		}
	}
	// three threads on the same row
	a3 := []string{"S0", "X0"}
	var progs3 [][]string
	for _, a := range a3 {
		for _, b := range []string{"U0", "X0", "S0", "C_"} {
			progs3 = append(progs3, []string{a, b})
		}
	}
	for _, p := range progs3 {
		for _, q := range progs3 {
			for _, r := range progs3 {
				if thorough || (p[1] != "S0" && q[1] != "S0" && r[1] != "S0") {
					out = append(out, [][]string{p, q, r})
				}
			}
		}
	}
	return out
}

func c16Concurrent(c *core.Ctx) {
	progs := c16Programs(c.Thorough())
	c.Res.Bound["c16conc.program_sets"] = len(progs)
	c.Res.Bound["c16conc.threads"] = "2-3"
	for i, p := range progs {
		if c.Expired() {
			return
		}
		if !c.Mine(i) {
			continue
		}
		core.ExploreSchedWhole(c, c16Scenario(p))
	}
}

func c16ConcReplay(raw json.RawMessage) (string, bool) {
	var rp struct {
		Scenario string     `json:"scenario"`
		Choices  []int      `json:"choices"`
		Progs    [][]string `json:"params"`
	}
	json.Unmarshal(raw, &rp)
	sc := c16Scenario(rp.Progs)
	x, v, out, div := core.RunSchedule(sc, rp.Choices)
	desc := fmt.Sprintf("programs %v schedule %v -> %s (points %d) %s", rp.Progs, rp.Choices, out, len(x.Trace), div)
	if v != nil {
		return desc + "\n" + v.Detail, true
	}
	return desc, false
}
