package props

import (
	"encoding/binary"
	"encoding/json"
	"fmt"
	"os"

	"github.com/ryogrid/SamehadaDB/lib/recovery/log_recovery"
	"github.com/ryogrid/SamehadaDB/lib/samehada"
	"github.com/ryogrid/SamehadaDB/lib/storage/access"
	"github.com/ryogrid/SamehadaDB/lib/types"

	"verif/core"
)

// developer aid: VERIF_REPLAY=<crash replay file> bin/dbg DBGCRASH  — prints the I/O trace and the
// heap layout the recovery produced
func init() {
	core.Register(&core.Driver{Prop: "DBGCRASH", Serial: true, Run: func(c *core.Ctx) {
		w := os.Stderr
		b, _ := os.ReadFile(os.Getenv("VERIF_REPLAY"))
		var f struct {
			Replay crashReplay `json:"replay"`
		}
		json.Unmarshal(b, &f)
		rp := f.Replay
		for _, seed := range crashSeeds(rp.Thor) {
			if seed.Name != rp.Seed {
				continue
			}
			hr := RunHistory(seed, crashHistories(seed, rp.Thor)[rp.HistIdx])
			for i, ev := range hr.Events {
				mark := " "
				if i == rp.N-1 {
					mark = "*"
				}
				switch ev.Kind {
				case 'M':
					fmt.Fprintf(w, "%s%3d M %s\n", mark, i, ev.Mark)
				case 'P':
					fmt.Fprintf(w, "%s%3d P page %d lsn %d\n", mark, i, ev.Page, binary.LittleEndian.Uint32(ev.Data[4:]))
				case 'L':
					fmt.Fprintf(w, "%s%3d L %d bytes:", mark, i, len(ev.Data))
					dumpLog(w, ev.Data)
				case 'G':
					fmt.Fprintf(w, "%s%3d G\n", mark, i)
				}
			}
			fmt.Fprintf(w, "base log:")
			dumpLog(w, hr.Base.Log)
			pt, _ := rp.locate(hr)
			im := hr.ImageAt(pt)
			dir := NewDir("dbgc")
			im.write(dir + "/d")
			{
				im.write(dir + "/m")
				shi := samehada.NewSamehadaInstance(dir+"/m", 32)
				txn := shi.GetTransactionManager().Begin(nil)
				shi.GetLogManager().DeactivateLogging()
				txn.SetIsRecoveryPhase(true)
				lr := log_recovery.NewLogRecovery(shi.GetDiskManager(), shi.GetBufferPoolManager(), shi.GetLogManager())
				dump := func(tag string) {
					for _, pid := range []int{2, 9} {
						pg := shi.GetBufferPoolManager().FetchPage(types.PageID(pid))
						if pg == nil {
							fmt.Fprintln(w, tag, "page", pid, "nil")
							continue
						}
						tp := access.CastPageAsTablePage(pg)
						fmt.Fprintf(w, "%s page %d lsn %d next %d fsp %d cnt %d:", tag, pid, tp.GetLSN(), tp.GetNextPageID(), tp.GetFreeSpacePointer(), tp.GetTupleCount())
						for sl := uint32(0); sl < tp.GetTupleCount() && sl < 12; sl++ {
							fmt.Fprintf(w, " %d/%x", tp.GetTupleOffsetAtSlot(sl), tp.GetTupleSize(sl))
						}
						fmt.Fprintln(w)
						shi.GetBufferPoolManager().UnpinPage(types.PageID(pid), false)
					}
				}
				dump("before")
				fmt.Fprintln(w, guard(func() { lr.Redo(txn) }))
				dump("after-redo")
				fmt.Fprintln(w, guard(func() { lr.Undo(txn) }))
				dump("after-undo")
			}
			db, fl := OpenDB(dir+"/d", seed.MemKB)
			fmt.Fprintln(w, "open:", fl)
			if db != nil {
				wd := &World{db: db, model: NewModel(), cfg: &WorldCfg{}}
				fmt.Fprintln(w, guard(func() { fmt.Fprintln(w, wd.HeapLayout()) }))
				for _, tm := range db.Cat().GetAllTables() {
					for i, col := range tm.Schema().GetColumns() {
						fmt.Fprintf(w, "table %s col %d %s type %v off %d fixed %d var %d inlined %v\n", *tm.GetTableName(), i, col.GetColumnName(), col.GetType(), col.GetOffset(), col.FixedLength(), col.VariableLength(), col.IsInlined())
					}
				}
				fmt.Fprintln(w, db.Auto("SELECT * FROM t;"))
				pg := db.BPM().FetchPage(2)
				fmt.Fprintf(w, "page2 tail: %x\n", pg.Data()[4040:])
				db.BPM().UnpinPage(2, false)
				fi, _ := os.Stat(dir + "/d.db")
				fmt.Fprintln(w, "file size", fi.Size(), "frames:")
				for i, p := range db.BPM().GetPages() {
					if p != nil {
						fmt.Fprintf(w, " f%d=p%d pin%d dirty%v;", i, p.GetPageID(), p.PinCount(), p.IsDirty())
					}
				}
				fmt.Fprintln(w)
			}
		}
	}})
}

var recNames = []string{"INVALID", "INSERT", "MARKDEL", "APPLYDEL", "ROLLBACKDEL", "UPDATE", "BEGIN", "COMMIT", "ABORT", "NEWPAGE", "DEALLOC", "REUSE", "SHUTDOWN"}

func dumpLog(w *os.File, data []byte) {
	off := 0
	for off+20 <= len(data) {
		sz := int(binary.LittleEndian.Uint32(data[off:]))
		lsn := int32(binary.LittleEndian.Uint32(data[off+4:]))
		txn := int32(binary.LittleEndian.Uint32(data[off+8:]))
		prev := int32(binary.LittleEndian.Uint32(data[off+12:]))
		typ := int(binary.LittleEndian.Uint32(data[off+16:]))
		name := "?"
		if typ < len(recNames) {
			name = recNames[typ]
		}
		extra := ""
		if (typ >= 1 && typ <= 5) && off+32 <= len(data) {
			extra = fmt.Sprintf("(p%d,s%d)", int32(binary.LittleEndian.Uint32(data[off+20:])), binary.LittleEndian.Uint32(data[off+24:]))
		}
		if typ == 9 && off+28 <= len(data) {
			extra = fmt.Sprintf("(prev%d,page%d)", int32(binary.LittleEndian.Uint32(data[off+20:])), int32(binary.LittleEndian.Uint32(data[off+24:])))
		}
		fmt.Fprintf(w, " [%d %s%s t%d prev%d %dB]", lsn, name, extra, txn, prev, sz)
		if sz < 20 {
			break
		}
		off += sz
	}
	if off < len(data) {
		fmt.Fprintf(w, " +%d trailing bytes", len(data)-off)
	}
	fmt.Fprintln(w)
}
