package props

// C16 — row locks follow the shared/exclusive compatibility rules until transaction end.
//
// Sequential part: the ENTIRE reachable state space of the real LockManager driven by 3 real
// transactions on 2 rows (lock requests exactly as TablePage issues them, transaction end through the
// real TransactionManager.Commit/Abort), against a holder-set model. Concurrent part: see c16c.go.

import (
	"encoding/json"
	"fmt"
	"reflect"
	"sort"
	"strings"
	"time"

	"github.com/ryogrid/SamehadaDB/lib/recovery"
	"github.com/ryogrid/SamehadaDB/lib/storage/access"
	"github.com/ryogrid/SamehadaDB/lib/storage/disk"
	"github.com/ryogrid/SamehadaDB/lib/storage/page"

	"verif/core"
)

const (
	c16Txns = 3
	c16Rows = 2
)

type c16Inst struct {
	lm   *access.LockManager
	tm   *access.TransactionManager
	txns [c16Txns]*access.Transaction
	rids [c16Rows]page.RID
	// model: 0 none, 1 shared, 2 exclusive
	mode [c16Txns][c16Rows]int
}

var c16Log *recovery.LogManager

func newC16() *c16Inst {
	in := &c16Inst{}
	if c16Log == nil {
		// logging stays disabled, so the (large) log manager is never touched and can be shared
		dm := disk.NewVirtualDiskManagerImpl("c16.db")
		c16Log = recovery.NewLogManager(&dm)
	}
	lg := c16Log
	in.lm = access.NewLockManager(access.STRICT, access.SS2PLMode)
	in.tm = access.NewTransactionManager(in.lm, lg)
	for i := range in.txns {
		in.txns[i] = in.tm.Begin(nil)
	}
	for r := range in.rids {
		in.rids[r] = page.RID{PageID: 1, SlotNum: uint32(r)}
	}
	return in
}

func (in *c16Inst) Close() {}

func (in *c16Inst) Enabled() []string {
	var ops []string
	for t := 0; t < c16Txns; t++ {
		for r := 0; r < c16Rows; r++ {
			ops = append(ops, fmt.Sprintf("S(%d,%d)", t, r))
		}
	}
	for t := 0; t < c16Txns; t++ {
		for r := 0; r < c16Rows; r++ {
			ops = append(ops, fmt.Sprintf("X(%d,%d)", t, r))
		}
	}
	for t := 0; t < c16Txns; t++ {
		for r := 0; r < c16Rows; r++ {
			// caller contract: LockUpgrade only for a row the transaction holds in shared mode
			if in.txns[t].IsSharedLocked(&in.rids[r]) {
				ops = append(ops, fmt.Sprintf("U(%d,%d)", t, r))
			}
		}
	}
	for t := 0; t < c16Txns; t++ {
		ops = append(ops, fmt.Sprintf("Commit(%d)", t))
		ops = append(ops, fmt.Sprintf("Abort(%d)", t))
	}
	return ops
}

func (in *c16Inst) observe() string {
	var sb strings.Builder
	for t := 0; t < c16Txns; t++ {
		for r := 0; r < c16Rows; r++ {
			s, x := in.txns[t].IsSharedLocked(&in.rids[r]), in.txns[t].IsExclusiveLocked(&in.rids[r])
			m := 0
			if x {
				m = 2
			} else if s {
				m = 1
			}
			fmt.Fprintf(&sb, "%d", m)
		}
	}
	return sb.String()
}

func (in *c16Inst) modelStr() string {
	var sb strings.Builder
	for t := 0; t < c16Txns; t++ {
		for r := 0; r < c16Rows; r++ {
			fmt.Fprintf(&sb, "%d", in.mode[t][r])
		}
	}
	return sb.String()
}

// tables renders the private lock tables with transaction ids renamed to slots.
func (in *c16Inst) tables() string {
	slot := map[int64]string{}
	for i, t := range in.txns {
		slot[int64(t.GetTransactionID())] = fmt.Sprintf("t%d", i)
	}
	name := func(id int64) string {
		if s, ok := slot[id]; ok {
			return s
		}
		return "ended"
	}
	return core.Safe("LockManager.sharedLockTable/exclusiveLockTable", func() string { return in.tablesRaw(name) })
}

func (in *c16Inst) tablesRaw(name func(int64) string) string {
	var ents []string
	sh := core.Field(in.lm, "sharedLockTable")
	for it := sh.MapRange(); it.Next(); {
		var ids []string
		for i := 0; i < it.Value().Len(); i++ {
			ids = append(ids, name(it.Value().Index(i).Int()))
		}
		sort.Strings(ids)
		if len(ids) > 0 {
			ents = append(ents, fmt.Sprintf("S[%d]=%s", it.Key().Field(1).Uint(), strings.Join(ids, ",")))
		}
	}
	ex := core.Field(in.lm, "exclusiveLockTable")
	for it := ex.MapRange(); it.Next(); {
		ents = append(ents, fmt.Sprintf("X[%d]=%s", it.Key().Field(1).Uint(), name(it.Value().Int())))
	}
	sort.Strings(ents)
	return strings.Join(ents, " ")
}

func (in *c16Inst) txnSets() string {
	var sb strings.Builder
	for _, t := range in.txns {
		s := append([]page.RID{}, t.GetSharedLockSet()...)
		x := append([]page.RID{}, t.GetExclusiveLockSet()...)
		sort.Slice(s, func(i, j int) bool { return s[i].SlotNum < s[j].SlotNum })
		sort.Slice(x, func(i, j int) bool { return x[i].SlotNum < x[j].SlotNum })
		fmt.Fprintf(&sb, "%v/%v|", s, x)
	}
	return sb.String()
}

func (in *c16Inst) Key() string { return in.tables() + "#" + in.txnSets() }

func (in *c16Inst) Apply(op string) (viol *core.Violation) {
	var kind string
	var t, r int
	if n, _ := fmt.Sscanf(op, "S(%d,%d)", &t, &r); n == 2 {
		kind = "S"
	} else if n, _ := fmt.Sscanf(op, "X(%d,%d)", &t, &r); n == 2 {
		kind = "X"
	} else if n, _ := fmt.Sscanf(op, "U(%d,%d)", &t, &r); n == 2 {
		kind = "U"
	} else if n, _ := fmt.Sscanf(op, "Commit(%d)", &t); n == 1 {
		kind = "Commit"
	} else if n, _ := fmt.Sscanf(op, "Abort(%d)", &t); n == 1 {
		kind = "Abort"
	} else {
		panic("bad op " + op)
	}
	bad := func(clause, detail string) *core.Violation {
		return &core.Violation{Property: "C16", Signature: "seq/" + clause + "/" + kind,
			Detail: fmt.Sprintf("%s: %s (model before: %s)", op, detail, in.modelStr())}
	}
	defer func() {
		if p := recover(); p != nil {
			viol = bad("panic", fmt.Sprint(p))
		}
	}()
	before := in.Key()
	switch kind {
	case "S", "X", "U":
		othersS, othersX := false, false
		for o := 0; o < c16Txns; o++ {
			if o != t {
				if in.mode[o][r] == 1 {
					othersS = true
				}
				if in.mode[o][r] == 2 {
					othersX = true
				}
			}
		}
		var want, got bool
		switch kind {
		case "S":
			want = !othersX
			got = in.lm.LockShared(in.txns[t], &in.rids[r])
			if want && in.mode[t][r] < 1 {
				in.mode[t][r] = 1
			}
		case "X":
			want = !othersX && !othersS
			got = in.lm.LockExclusive(in.txns[t], &in.rids[r])
			if want {
				in.mode[t][r] = 2
			}
		case "U":
			want = !othersX && !othersS
			got = in.lm.LockUpgrade(in.txns[t], &in.rids[r])
			if want {
				in.mode[t][r] = 2
			}
		}
		if got != want {
			return bad("grant-decision", fmt.Sprintf("granted=%v, compatibility rules say %v", got, want))
		}
		if !got && in.Key() != before {
			return bad("denied-request-changed-state", fmt.Sprintf("before %s after %s", before, in.Key()))
		}
	case "Commit", "Abort":
		if kind == "Commit" {
			in.tm.Commit(nil, in.txns[t])
		} else {
			in.tm.Abort(nil, in.txns[t])
		}
		for r := range in.mode[t] {
			in.mode[t][r] = 0
		}
		in.txns[t] = in.tm.Begin(nil)
	}
	if obs := in.observe(); obs != in.modelStr() {
		return bad("held-locks", fmt.Sprintf("locks held per (txn,row) as the transactions report them %s, model %s", obs, in.modelStr()))
	}
	return nil
}

func c16Fresh() core.Instance { return newC16() }

func init() {
	core.Register(&core.Driver{
		Prop:   "C16",
		Budget: func(tier string) time.Duration { return 10 * time.Minute },
		Assume: []string{
			"A2 LockUpgrade is only called for a row the transaction holds in shared mode (caller contract; it panics by design otherwise)",
			"transaction end is driven through the real TransactionManager.Commit/Abort with an empty write set",
			"3 transactions x 2 rows; ended transactions are replaced by fresh ones (new ids) in the same slot",
		},
		Run: func(c *core.Ctx) {
			depth := 40 // the space closes long before; the search stops when no new state appears
			if c.Shard == 0 {
				core.BFS(&core.Ctx{Prop: c.Prop, Tier: c.Tier, Shard: 0, Of: 1, Deadline: c.Deadline, Res: c.Res},
					core.SeqConfig{Name: "c16seq", Fresh: c16Fresh, MaxDepth: depth})
			}
			c16Concurrent(c)
		},
		Replay: func(raw json.RawMessage) (string, bool) {
			var rp struct {
				Driver  string   `json:"driver"`
				History []string `json:"history"`
			}
			json.Unmarshal(raw, &rp)
			if rp.Driver == "c16seq" {
				return core.ReplayHistory(c16Fresh, rp.History)
			}
			return c16ConcReplay(raw)
		},
	})
	_ = reflect.TypeOf
}
