package props

// C17 — each index container behaves as a sorted multimap, also under concurrency.
// Sequential part (Engine A): the four index kinds are driven directly through index.Index (real
// containers on a real buffer pool) with integer, float and varchar keys; every operation sequence up to a
// depth from several seeds (empty, node just below its split, several nodes); after EVERY operation every
// key of the domain is looked up and every range is scanned and compared with a sorted multimap.
// The level of a new skip-list node (math/rand in the repository) is an answer the harness gives (vrand).
// Concurrent part: c17c.go.

import (
	"unsafe"
	"encoding/json"
	"fmt"
	"math"
	"sort"
	"strings"
	"time"

	"github.com/ryogrid/SamehadaDB/lib/recovery"
	"github.com/ryogrid/SamehadaDB/lib/storage/buffer"
	"github.com/ryogrid/SamehadaDB/lib/storage/disk"
	"github.com/ryogrid/SamehadaDB/lib/storage/index"
	"github.com/ryogrid/SamehadaDB/lib/storage/index/index_constants"
	"github.com/ryogrid/SamehadaDB/lib/storage/page"
	"github.com/ryogrid/SamehadaDB/lib/storage/table/column"
	"github.com/ryogrid/SamehadaDB/lib/storage/table/schema"
	"github.com/ryogrid/SamehadaDB/lib/storage/tuple"
	"github.com/ryogrid/SamehadaDB/lib/types"
	"github.com/ryogrid/SamehadaDB/lib/verifshim/vrand"

	"verif/core"
)

type c17Params struct {
	Kind   string `json:"index_kind"` // skip uniq btree hash
	KeyT   string `json:"key_type"`   // int float str
	Seed   string `json:"seed"`       // empty | filled
	Levels string `json:"levels"`     // pattern of node levels handed to the skip list
	Depth  int    `json:"depth"`
}

type c17Ent struct {
	k   any
	rid page.RID
}

type c17Inst struct {
	p    c17Params
	idx  index.Index
	bpm  *buffer.BufferPoolManager
	sc   *schema.Schema
	ents []c17Ent // the model: a multiset of (key, rid)
	keys []any
	rids []page.RID
	last   string
	nLvl   int
	replay bool
}

func (in *c17Inst) SetReplay(b bool) { in.replay = b }

// c17HashBoundaryKeys finds (once per process, with the real container) int keys whose home slot is the
// LAST slot of a block page of the 10-block linear-probe table: the first of them lands there, the others
// continue the probe run in slot 0, 1, ... of the NEXT block page. Where a key lands is read through the
// block page API; the verdicts stay with the model.
var c17HashBoundary []any

func c17HashBoundaryKeys() []any {
	if c17HashBoundary != nil {
		return c17HashBoundary
	}
	in := newC17(c17Params{Kind: "hash", KeyT: "int", Seed: "empty", Levels: "all1"})
	defer in.Close()
	hidx := in.idx.(*index.LinearProbeHashTableIndex)
	hp := in.bpm.FetchPage(hidx.GetHeaderPageID())
	header := (*page.HashTableHeaderPage)(unsafe.Pointer(hp.Data()))
	nb := int(header.NumBlocks())
	var blocks []*page.HashTableBlockPage
	for b := 0; b < nb; b++ {
		bp := in.bpm.FetchPage(header.GetBlockPageID(uint64(b)))
		blocks = append(blocks, (*page.HashTableBlockPage)(unsafe.Pointer(bp.Data())))
	}
	last := uint64(page.BlockArraySize - 1)
	byBlock := map[int][]any{}
	rid := page.RID{PageID: 1, SlotNum: 0}
	for k := int32(0); k < 400000; k++ {
		in.idx.InsertEntry(in.tup(k), rid, nil)
		for b := 0; b < nb; b++ {
			if blocks[b].IsReadable(last) {
				byBlock[b] = append(byBlock[b], k)
				if len(byBlock[b]) == 3 {
					c17HashBoundary = byBlock[b]
				}
			}
		}
		in.idx.DeleteEntry(in.tup(k), rid, nil)
		if c17HashBoundary != nil {
			break
		}
	}
	if c17HashBoundary == nil {
		panic("no three keys with a home in the last slot of one block page found")
	}
	return c17HashBoundary
}

func c17Keys(p c17Params) []any {
	if p.Seed == "boundary" {
		// hash index: three keys that collide in the last slot of a block page (the probe run continues in
		// the next block page) and two ordinary ones
		return append(append([]any{}, c17HashBoundaryKeys()...), int32(-1), int32(7))
	}
	if p.Seed == "multi" {
		// keys before, inside (between two filler keys) and after the 700 filler keys that span several nodes
		if p.KeyT == "int" {
			return []any{int32(math.MinInt32 + 1), int32(101), int32(1150), int32(2198), int32(math.MaxInt32 - 1)}
		}
		return []any{float32(-3.0e38), float32(100.125), float32(187.625), float32(275), float32(3.0e38)}
	}
	switch p.KeyT {
	case "int":
		if p.Kind == "uniq" {
			// the unique skip list uses the key type itself and reserves the extreme values as -inf/+inf
			// sentinels of its start and end nodes
			return []any{int32(math.MinInt32 + 1), int32(-1), int32(0), int32(1), int32(math.MaxInt32 - 1)}
		}
		return []any{int32(math.MinInt32), int32(-1), int32(0), int32(1), int32(math.MaxInt32)}
	case "float":
		// -0.0 and 0.0 are one key (they compare equal as values): an entry stored under one spelling of zero
		// must be found, deleted and range-scanned under the other
		return []any{float32(-3.0e38), float32(math.Copysign(0, -1)), float32(0), float32(1e-40), float32(3.0e38)}
	}
	if p.Kind == "btree" {
		b := strings.Repeat("k", 23)
		return []any{"", "a", "aa", "ab", b + "x", b + "y"}
	}
	b := strings.Repeat("k", 599)
	return []any{"", "a", "aa", "ab", b + "x", b + "y"}
}

func c17TypeID(t string) types.TypeID {
	return map[string]types.TypeID{"int": types.Integer, "float": types.Float, "str": types.Varchar}[t]
}

var c17Log *recovery.LogManager

func newC17(p c17Params) *c17Inst {
	in := &c17Inst{p: p, keys: c17Keys(p), rids: []page.RID{{PageID: 1, SlotNum: 0}, {PageID: 65537, SlotNum: 0}, {PageID: 70000, SlotNum: 513}}}
	if c17Log == nil {
		dm := disk.NewVirtualDiskManagerImpl("c17log.db")
		c17Log = recovery.NewLogManager(&dm)
	}
	dm := disk.NewVirtualDiskManagerImpl("c17.db")
	in.bpm = buffer.NewBufferPoolManager(64, dm, c17Log)
	kind := map[string]index_constants.IndexKind{"skip": index_constants.IndexKindSkipList, "uniq": index_constants.IndexKindUniqSkipList,
		"btree": index_constants.IndexKindBtree, "hash": index_constants.IndexKindHash}[p.Kind]
	col := column.NewColumn("t.k", c17TypeID(p.KeyT), true, kind, types.PageID(-1), nil)
	in.sc = schema.NewSchema([]*column.Column{col})
	im := index.NewIndexMetadata("t.k_index", "t", in.sc, []uint32{0})
	// node levels: the harness answers rand.Float32()
	lv := map[string][]int{"all1": {1}, "cycle123": {1, 2, 3}, "cycle321": {3, 2, 1}}[p.Levels]
	if lv == nil {
		lv = []int{1}
	}
	pending := 0
	vrand.Float32Fn = func() float32 {
		// GetNodeLevel: for rand.Float32() < 0.5 { level++ }  => answer (level-1) times "continue", then "stop"
		if pending == 0 {
			pending = lv[in.nLvl%len(lv)]
			in.nLvl++
		}
		pending--
		if pending > 0 {
			return 0.0
		}
		return 0.9
	}
	switch p.Kind {
	case "skip":
		in.idx = index.NewSkipListIndex(im, in.bpm, 0, c17Log)
	case "uniq":
		in.idx = index.NewUniqSkipListIndex(im, in.bpm, 0)
	case "btree":
		in.idx = index.NewBTreeIndex(im, in.bpm, 0, c17Log, nil)
	case "hash":
		in.idx = index.NewLinearProbeHashTableIndex(im, in.bpm, 0, 10, types.PageID(-1))
	}
	if p.Seed == "filled" || p.Seed == "multi" {
		// filler keys around the domain so that nodes are (nearly) full / several nodes exist
		n := 0
		for _, f := range c17Filler(p) {
			in.idx.InsertEntry(in.tup(f), page.RID{PageID: 9, SlotNum: uint32(n)}, nil)
			in.ents = append(in.ents, c17Ent{f, page.RID{PageID: 9, SlotNum: uint32(n)}})
			n++
		}
	}
	return in
}

func c17Filler(p c17Params) []any {
	var out []any
	nNum := 150
	if p.Seed == "multi" {
		nNum = 700 // a node holds ~300 fixed-size entries: three or more nodes
	}
	switch p.KeyT {
	case "int":
		for i := 0; i < nNum; i++ {
			out = append(out, int32(100+i*3))
		}
	case "float":
		for i := 0; i < nNum; i++ {
			out = append(out, float32(100)+float32(i)*0.25)
		}
	default:
		n := 5
		l := 590
		if p.Kind == "btree" {
			n, l = 60, 20
		}
		for i := 0; i < n; i++ {
			out = append(out, fmt.Sprintf("f%03d", i)+strings.Repeat("z", l-4))
		}
	}
	return out
}

func (in *c17Inst) tup(k any) *tuple.Tuple {
	return tuple.NewTupleFromSchema([]types.Value{toValue(k)}, in.sc)
}

func (in *c17Inst) Close()              { vrand.Float32Fn = nil; vrand.Float32Fn = defaultVrand }
func (in *c17Inst) LastOutcome() string { return in.last }

var defaultVrand = vrand.Float32Fn

func (in *c17Inst) has(k any, r page.RID) int {
	for i, e := range in.ents {
		if c, ok := cmpVal(e.k, k); ok && c == 0 && e.rid == r {
			return i
		}
	}
	return -1
}

func (in *c17Inst) ridInUse(r page.RID) bool {
	for _, e := range in.ents {
		if e.rid == r {
			return true
		}
	}
	return false
}

func (in *c17Inst) hasKey(k any) bool {
	for _, e := range in.ents {
		if c, ok := cmpVal(e.k, k); ok && c == 0 {
			return true
		}
	}
	return false
}

func (in *c17Inst) Enabled() []string {
	var ops []string
	for ki, k := range in.keys {
		for ri, r := range in.rids {
			if in.has(k, r) < 0 {
				if in.p.Kind == "uniq" && in.hasKey(k) {
					continue // one row id per key (caller contract of the unique index)
				}
				if in.p.Kind == "hash" && in.ridInUse(r) {
					// a row has one value in the indexed column: a row id is stored under one key at a time (the
					// linear-probe table identifies an entry by its row id while it walks a probe run)
					continue
				}
				ops = append(ops, fmt.Sprintf("Ins(%d,%d)", ki, ri))
			} else {
				ops = append(ops, fmt.Sprintf("Del(%d,%d)", ki, ri))
				if in.p.Kind != "hash" {
					// UpdateEntry: move the entry to another key (same rid) or another rid (same key)
					for k2 := range in.keys {
						if k2 != ki && in.has(in.keys[k2], r) < 0 && !(in.p.Kind == "uniq" && in.hasKey(in.keys[k2])) {
							ops = append(ops, fmt.Sprintf("Upd(%d,%d,%d,%d)", ki, ri, k2, ri))
							break
						}
					}
					r2 := (ri + 1) % len(in.rids)
					if in.has(k, in.rids[r2]) < 0 {
						ops = append(ops, fmt.Sprintf("Upd(%d,%d,%d,%d)", ki, ri, ki, r2))
					}
				}
			}
		}
	}
	return ops
}

func (in *c17Inst) Key() string {
	var es []string
	for _, e := range in.ents {
		if e.rid.PageID == 9 {
			continue
		}
		es = append(es, fmt.Sprintf("%v@%d.%d", e.k, e.rid.PageID, e.rid.SlotNum))
	}
	sort.Strings(es)
	// the model alone would be too coarse: the physical shape depends on the order of operations, so the
	// operation count and level stream position are part of the key (no merging across different shapes)
	return strings.Join(es, ",") + fmt.Sprintf("#lvl%d", in.nLvl)
}

func (in *c17Inst) Apply(op string) (viol *core.Violation) {
	var a, b, c2, d int
	kind := ""
	switch {
	case scan(op, "Ins(%d,%d)", &a, &b):
		kind = "Insert"
	case scan(op, "Del(%d,%d)", &a, &b):
		kind = "Delete"
	case scan(op, "Upd(%d,%d,%d,%d)", &a, &b, &c2, &d):
		kind = "Update"
	default:
		panic("bad op " + op)
	}
	bad := func(clause, detail string) *core.Violation {
		return &core.Violation{Property: "C17", Signature: fmt.Sprintf("index/%s/%s/%s/%s", in.p.Kind, in.p.KeyT, clause, kind),
			Detail: fmt.Sprintf("%s [%s %s seed=%s levels=%s]: %s", op, in.p.Kind, in.p.KeyT, in.p.Seed, in.p.Levels, detail)}
	}
	defer func() {
		if r := recover(); r != nil {
			viol = bad("panic", firstLineOf(fmt.Sprint(r)))
		}
	}()
	pinsBefore := c17Pins(in.bpm)
	switch kind {
	case "Insert":
		in.idx.InsertEntry(in.tup(in.keys[a]), in.rids[b], nil)
		in.ents = append(in.ents, c17Ent{in.keys[a], in.rids[b]})
	case "Delete":
		in.idx.DeleteEntry(in.tup(in.keys[a]), in.rids[b], nil)
		i := in.has(in.keys[a], in.rids[b])
		in.ents = append(in.ents[:i], in.ents[i+1:]...)
	case "Update":
		in.idx.UpdateEntry(in.tup(in.keys[a]), in.rids[b], in.tup(in.keys[c2]), in.rids[d], nil)
		i := in.has(in.keys[a], in.rids[b])
		in.ents[i] = c17Ent{in.keys[c2], in.rids[d]}
	}
	in.last = "ok"
	if in.replay {
		return nil
	}
	if v := in.check(bad); v != nil {
		return v
	}
	if in.p.Kind != "btree" {
		if after := c17Pins(in.bpm); after != pinsBefore {
			// more frames pinned than before the operation (node pages newly created by a split are pinned
			// legitimately only if they stay part of the permanently pinned set, which they do not)
			if newlyPinned(pinsBefore, after) {
				return bad("frame-left-pinned", fmt.Sprintf("pinned pages before %s, after %s", pinsBefore, after))
			}
		}
	}
	return nil
}

func c17Pins(bpm *buffer.BufferPoolManager) string {
	var ps []string
	for _, pg := range bpm.GetPages() {
		if pg != nil && pg.PinCount() > 0 {
			ps = append(ps, fmt.Sprint(pg.GetPageID()))
		}
	}
	sort.Strings(ps)
	return strings.Join(ps, ",")
}

func newlyPinned(before, after string) bool {
	b := map[string]bool{}
	for _, p := range strings.Split(before, ",") {
		b[p] = true
	}
	for _, p := range strings.Split(after, ",") {
		if p != "" && !b[p] {
			return true
		}
	}
	return false
}

// check compares every lookup and every range scan with the model.
func (in *c17Inst) check(bad func(string, string) *core.Violation) *core.Violation {
	// sorted model
	ents := append([]c17Ent{}, in.ents...)
	sort.SliceStable(ents, func(i, j int) bool { c, _ := cmpVal(ents[i].k, ents[j].k); return c < 0 })
	ridSet := func(rs []page.RID) string {
		var s []string
		for _, r := range rs {
			s = append(s, fmt.Sprintf("%d.%d", r.PageID, r.SlotNum))
		}
		sort.Strings(s)
		return strings.Join(s, " ")
	}
	probe := append([]any{}, in.keys...)
	var filler []any
	if in.p.Seed != "empty" {
		filler = c17Filler(in.p)
		probe = append(probe, filler[0], filler[len(filler)/2], filler[len(filler)-1])
	}
	for _, k := range probe {
		var want []page.RID
		for _, e := range ents {
			if c, _ := cmpVal(e.k, k); c == 0 {
				want = append(want, e.rid)
			}
		}
		got := in.idx.ScanKey(in.tup(k), nil)
		if ridSet(got) != ridSet(want) {
			return bad("lookup", fmt.Sprintf("ScanKey(%v) returns [%s], stored under the key: [%s]", shortKey(k), ridSet(got), ridSet(want)))
		}
	}
	if in.p.Kind == "hash" {
		return nil
	}
	bounds := append([]any{nil}, in.keys...)
	if len(filler) <= 8 {
		bounds = append(bounds, filler...) // wide keys: a filler key may be the first/last entry of a node
	}
	var pairs [][2]any
	for _, lo := range bounds {
		for _, hi := range bounds {
			pairs = append(pairs, [2]any{lo, hi})
		}
	}
	if in.p.Seed == "multi" {
		// every filler key as inclusive bound of short ranges (whichever keys sit on node boundaries are among
		// them), every 50th as bound of the long ranges
		for i, f := range filler {
			pairs = append(pairs, [2]any{f, f})
			if i > 0 {
				pairs = append(pairs, [2]any{filler[i-1], f})
			}
			if i > 0 && i+1 < len(filler) {
				pairs = append(pairs, [2]any{filler[i-1], filler[i+1]})
			}
			if i%50 == 0 {
				pairs = append(pairs, [2]any{nil, f}, [2]any{f, nil})
			}
		}
	}
	for _, pr := range pairs {
		{
			lo, hi := pr[0], pr[1]
			if lo != nil && hi != nil {
				if c, _ := cmpVal(lo, hi); c > 0 {
					continue
				}
			}
			var want []string
			for _, e := range ents {
				if lo != nil {
					if c, _ := cmpVal(e.k, lo); c < 0 {
						continue
					}
				}
				if hi != nil {
					if c, _ := cmpVal(e.k, hi); c > 0 {
						continue
					}
				}
				want = append(want, fmt.Sprintf("%v@%d.%d", shortKey(e.k), e.rid.PageID, e.rid.SlotNum))
			}
			var lot, hit *tuple.Tuple
			if lo != nil {
				lot = in.tup(lo)
			}
			if hi != nil {
				hit = in.tup(hi)
			}
			it := in.idx.GetRangeScanIterator(lot, hit, nil)
			var got []string
			var prev any
			for n := 0; n < 2000; n++ {
				done, _, key, rid := it.Next()
				if done {
					break
				}
				var kv any
				if in.p.Kind == "skip" {
					// the skip list index hands back the encoded key; the rid identifies the entry
					kv = nil
				} else if key != nil {
					switch in.p.KeyT {
					case "int":
						kv = key.ToInteger()
					case "float":
						kv = key.ToFloat()
					default:
						kv = key.ToVarchar()
					}
				}
				// find the model key of this rid among entries in range (rid is unique per key in this driver except duplicates)
				got = append(got, fmt.Sprintf("%d.%d", rid.PageID, rid.SlotNum))
				if kv != nil && prev != nil {
					if c, ok := cmpVal(prev, kv); ok && c > 0 {
						return bad("range-order", fmt.Sprintf("range [%v,%v]: keys come back out of order (%v after %v)", shortKey(lo), shortKey(hi), shortKey(kv), shortKey(prev)))
					}
				}
				if kv != nil {
					prev = kv
				}
			}
			// compare as sequences of rids grouped by key order: entries with equal keys may come in any rid order
			if !c17SameRange(ents, lo, hi, got) {
				return bad("range", fmt.Sprintf("range [%v,%v] returns rids %v, expected entries %v", shortKey(lo), shortKey(hi), got, want))
			}
		}
	}
	return nil
}

// c17SameRange: got (rids in the order returned) must be the in-range entries, each once, in key order
// (ties between equal keys in any order).
func c17SameRange(sorted []c17Ent, lo, hi any, got []string) bool {
	var groups [][]string
	var lastK any
	for _, e := range sorted {
		if lo != nil {
			if c, _ := cmpVal(e.k, lo); c < 0 {
				continue
			}
		}
		if hi != nil {
			if c, _ := cmpVal(e.k, hi); c > 0 {
				continue
			}
		}
		r := fmt.Sprintf("%d.%d", e.rid.PageID, e.rid.SlotNum)
		if c, ok := cmpVal(lastK, e.k); len(groups) > 0 && ok && c == 0 {
			groups[len(groups)-1] = append(groups[len(groups)-1], r)
		} else {
			groups = append(groups, []string{r})
		}
		lastK = e.k
	}
	i := 0
	for _, g := range groups {
		if i+len(g) > len(got) {
			return false
		}
		a := append([]string{}, got[i:i+len(g)]...)
		b := append([]string{}, g...)
		sort.Strings(a)
		sort.Strings(b)
		if strings.Join(a, ",") != strings.Join(b, ",") {
			return false
		}
		i += len(g)
	}
	return i == len(got)
}

func shortKey(k any) any {
	if s, ok := k.(string); ok && len(s) > 12 {
		return fmt.Sprintf("%s…%s(%d)", s[:3], s[len(s)-1:], len(s))
	}
	if k == nil {
		return "-"
	}
	return k
}

func c17Configs(thorough bool) []c17Params {
	var out []c17Params
	depth := 3
	if thorough {
		depth = 4
	}
	// linear-probe table: a probe run that crosses from the last slot of one block page into the next page
	out = append(out, c17Params{Kind: "hash", KeyT: "int", Seed: "boundary", Levels: "all1", Depth: depth + 1})
	for _, kind := range []string{"skip", "uniq", "btree"} {
		for _, kt := range []string{"int", "float"} {
			// several nodes of fixed-size keys; the 700-key seed makes each replay expensive: depth 2 (thorough 3)
			lv := "all1"
			if kind != "btree" {
				lv = "cycle123"
			}
			out = append(out, c17Params{Kind: kind, KeyT: kt, Seed: "multi", Levels: lv, Depth: depth - 1})
		}
	}
	for _, kind := range []string{"skip", "uniq", "btree", "hash"} {
		for _, kt := range []string{"int", "float", "str"} {
			for _, seed := range []string{"empty", "filled"} {
				lvls := []string{"all1"}
				if kind == "skip" || kind == "uniq" {
					lvls = []string{"all1", "cycle123", "cycle321"}
				}
				for _, lv := range lvls {
					if seed == "empty" && lv != "all1" && kt != "str" {
						continue // no node split can happen within the depth bound: the level is never used
					}
					out = append(out, c17Params{Kind: kind, KeyT: kt, Seed: seed, Levels: lv, Depth: depth})
				}
			}
		}
	}
	return out
}

func init() {
	core.Register(&core.Driver{
		Prop: "C17",
		Budget: func(tier string) time.Duration {
			if tier == "thorough" {
				return 30 * time.Minute
			}
			return 170 * time.Second
		},
		Assume: []string{
			"caller contract: entries are deleted/updated only if present, a (key,row id) pair is inserted once, the unique index gets one row id per key, hash index without UpdateEntry (not implemented)",
			"the unique skip list reserves the extreme values of the key type as sentinels of its first/last node (keys MinInt32/MaxInt32 are not used with it); B-tree varchar keys <= 24 bytes (MaxKeyLen 50 incl. overhead), other varchar keys up to 600 bytes",
			"node levels of the skip list are answers of the harness (patterns all-1, 1-2-3, 3-2-1)",
			"the B-link tree is driven sequentially only (it synchronises with spin latches the scheduler does not own)",
		},
		Run: func(c *core.Ctx) {
			for i, p := range c17Configs(c.Thorough()) {
				p := p
				if !c.Mine(i) {
					continue
				}
				if c.Expired() {
					return
				}
				sub := &core.Ctx{Prop: c.Prop, Tier: c.Tier, Shard: 0, Of: 1, Deadline: c.Deadline, Res: c.Res}
				core.BFS(sub, core.SeqConfig{Name: fmt.Sprintf("c17/%s/%s/%s/%s", p.Kind, p.KeyT, p.Seed, p.Levels), Params: p,
					Fresh: func() core.Instance { return newC17(p) }, MaxDepth: p.Depth})
			}
			c17Concurrent(c)
		},
		Replay: func(raw json.RawMessage) (string, bool) {
			var rp struct {
				History []string  `json:"history"`
				Params  c17Params `json:"params"`
			}
			json.Unmarshal(raw, &rp)
			if rp.History != nil {
				return core.ReplayHistory(func() core.Instance { return newC17(rp.Params) }, rp.History)
			}
			return c17ConcReplay(raw)
		},
	})
}
