package props

// C13, Engine C part: two or three goroutines use the real BufferPoolManager on one to three frames under
// the controlled scheduler. The sequential exploration (c13.go) decides every history of whole operations;
// what it cannot see is an operation that is no longer atomic (the pool mutex released around the disk
// read / the victim write-back, a pin taken after the frame was published, ...). Every thread writes only
// its own byte lane of a page (offset c13cLane+thread), so the final content of every page is determined
// whatever the interleaving: lane t holds the last value thread t wrote to that page.

import (
	"fmt"
	"sort"
	"strings"

	"github.com/ryogrid/SamehadaDB/lib/common"
	"github.com/ryogrid/SamehadaDB/lib/recovery"
	"github.com/ryogrid/SamehadaDB/lib/storage/buffer"
	"github.com/ryogrid/SamehadaDB/lib/storage/disk"
	"github.com/ryogrid/SamehadaDB/lib/storage/page"
	"github.com/ryogrid/SamehadaDB/lib/types"

	"verif/core"
)

const c13cLane = 200

// one step of a thread program: w<i> fetch page i, write own lane, unpin dirty; r<i> fetch, read, unpin clean;
// h<i> fetch+write and keep the pin until the thread's next u<i>; new: NewPage+write+unpin dirty;
// tmp: NewPage, write, unpin dirty, DeallocatePage(noWait) (hash-join style); f<i>: FlushPage; fa: FlushAllDirtyPages
// Contract kept by every scenario: frames >= the largest number of pins all threads can hold at the same
// time (a fetch that finds every frame pinned panics by design: "Victim: page which can be cache out is not exist")
type c13cScenario struct {
	Name    string
	Frames  int
	Threads [][]string
	Bound   int
	// Tolerate: FlushAllDirtyPages walks the page table in map order; with two resident pages the order of
	// its latch operations is not reproducible (core.Scenario.TolerateDivergence)
	Tolerate bool
}

type c13cWorld struct {
	bpm   *buffer.BufferPoolManager
	dm    disk.DiskManager
	pids  []types.PageID
	last  []map[types.PageID]byte // per thread: last value written to its lane of a page
	seq   []byte
	news  [][]types.PageID
	gone  map[types.PageID]bool // ids deallocated by tmp steps (may legitimately be handed out again)
	fails []string              // clause|detail
	nils  int
}

func (w *c13cWorld) fail(clause, f string, a ...any) {
	w.fails = append(w.fails, clause+"|"+fmt.Sprintf(f, a...))
}

func (w *c13cWorld) checkLane(t int, pg *page.Page, p types.PageID, where string) {
	if want, ok := w.last[t][p]; ok {
		if got := pg.Data()[c13cLane+t]; got != want {
			w.fail("read-own-write", "%s: thread %d reads %#x in its lane of page %d, it last wrote %#x", where, t, got, p, want)
		}
	}
	if pg.GetPageID() != p {
		w.fail("wrong-page", "%s: FetchPage(%d) returned the page object of page %d", where, p, pg.GetPageID())
	}
}

func (w *c13cWorld) write(t int, pg *page.Page, p types.PageID) {
	w.seq[t]++
	v := byte(t+1)<<5 | w.seq[t]
	pg.WLatch()
	pg.Data()[c13cLane+t] = v
	pg.WUnlatch()
	w.last[t][p] = v
}

func (w *c13cWorld) step(t int, op string, held map[types.PageID]*page.Page) {
	idx := func() types.PageID { return w.pids[int(op[len(op)-1]-'0')] }
	switch {
	case op == "new" || op == "tmp":
		pg := w.bpm.NewPage()
		if pg == nil {
			w.nils++
			return
		}
		p := pg.GetPageID()
		for _, q := range w.pids {
			if q == p {
				w.fail("new-id-in-use", "NewPage returned id %d of a live page", p)
			}
		}
		for u := range w.news {
			for _, q := range w.news[u] {
				if q == p && !w.gone[p] {
					w.fail("new-id-in-use", "NewPage returned id %d twice", p)
				}
			}
		}
		delete(w.gone, p)
		for u := range w.last {
			delete(w.last[u], p)
		}
		w.news[t] = append(w.news[t], p)
		w.write(t, pg, p)
		w.bpm.UnpinPage(p, true)
		if op == "tmp" {
			w.gone[p] = true
			w.bpm.DeallocatePage(p, true)
		}
	case op == "fa":
		w.bpm.FlushAllDirtyPages()
	case op[0] == 'f':
		w.bpm.FlushPage(idx())
	case op[0] == 'w' || op[0] == 'r' || op[0] == 'h':
		p := idx()
		pg := w.bpm.FetchPage(p)
		if pg == nil {
			w.nils++
			return
		}
		pg.RLatch()
		w.checkLane(t, pg, p, op)
		pg.RUnlatch()
		switch op[0] {
		case 'w':
			w.write(t, pg, p)
			w.bpm.UnpinPage(p, true)
		case 'r':
			w.bpm.UnpinPage(p, false)
		case 'h':
			w.write(t, pg, p)
			held[p] = pg
		}
	case op[0] == 'u':
		p := idx()
		if pg := held[p]; pg != nil {
			// the frame must still hold the page the thread has pinned
			if pg.GetPageID() != p {
				w.fail("pinned-page-evicted", "thread %d holds a pin on page %d but its page object now carries id %d", t, p, pg.GetPageID())
			}
			pg.RLatch()
			w.checkLane(t, pg, p, op)
			pg.RUnlatch()
			w.bpm.UnpinPage(p, true)
			delete(held, p)
		}
	}
}

func c13cBuild(x c13cScenario) *core.Scenario {
	return &core.Scenario{Name: "c13/conc/" + x.Name, Bound: x.Bound, Params: x, TolerateDivergence: x.Tolerate,
		Setup: func() *core.Harness {
			dm := disk.NewVirtualDiskManagerImpl("c13conc.db")
			if c17Log == nil {
				ldm := disk.NewVirtualDiskManagerImpl("c17log.db")
				c17Log = recovery.NewLogManager(&ldm)
			}
			bpm := buffer.NewBufferPoolManager(uint32(x.Frames), dm, c17Log)
			w := &c13cWorld{bpm: bpm, dm: dm, gone: map[types.PageID]bool{}}
			for i := 0; i < 3; i++ {
				pg := bpm.NewPage()
				pg.Data()[c13TagOff] = byte(0x40 + i)
				w.pids = append(w.pids, pg.GetPageID())
				bpm.UnpinPage(pg.GetPageID(), true)
			}
			bpm.FlushAllPages()
			h := &core.Harness{}
			for t := range x.Threads {
				t := t
				w.last = append(w.last, map[types.PageID]byte{})
				w.seq = append(w.seq, 0)
				w.news = append(w.news, nil)
				h.Names = append(h.Names, fmt.Sprintf("user%d", t))
				h.Threads = append(h.Threads, func() {
					held := map[types.PageID]*page.Page{}
					if f := guard(func() {
						for _, op := range x.Threads[t] {
							w.step(t, op, held)
						}
					}); f != nil {
						w.fail(f.Kind+"@"+f.Where, "thread %d: %s", t, f.String())
					}
				})
			}
			h.Check = func(xi *core.ExecInfo) (*core.Violation, string) {
				viol := func(clause, detail string) *core.Violation {
					return &core.Violation{Property: "C13", Signature: "conc/" + clause + "/" + x.Name,
						Detail: fmt.Sprintf("%s\nscenario %s: %d frames, programs %v", detail, x.Name, x.Frames, x.Threads)}
				}
				if xi.Deadlock {
					return viol("deadlock", "no thread can run: "+strings.Join(xi.Blocked, "; ")+"\n"+strings.Join(w.fails, "\n")), "deadlock"
				}
				if xi.Horizon {
					return nil, "horizon"
				}
				if len(w.fails) == 0 {
					if f := guard(func() { w.finalCheck() }); f != nil {
						w.fail(f.Kind+"@"+f.Where, "final read-back: %s", f.String())
					}
				}
				if len(w.fails) > 0 {
					parts := strings.SplitN(w.fails[0], "|", 2)
					return viol(parts[0], strings.Join(w.fails, "\n")), "VIOLATION:" + parts[0]
				}
				// the outcome label: which fetches found no frame, which ids the new pages got
				var ids []string
				for t := range w.news {
					ids = append(ids, fmt.Sprint(w.news[t]))
				}
				return nil, fmt.Sprintf("ok nil-fetches=%d new=%s", w.nils, strings.Join(ids, ""))
			}
			return h
		},
	}
}

// finalCheck: single-threaded, after all threads ended.
func (w *c13cWorld) finalCheck() {
	// nothing stays pinned, the page table is a bijection onto frames holding those pages
	frames := w.bpm.GetPages()
	for f, pg := range frames {
		if pg != nil && pg.PinCount() != 0 {
			w.fail("pin-count", "after all threads ended frame %d (page %d) has pin count %d", f, pg.GetPageID(), pg.PinCount())
		}
	}
	res := map[types.PageID]int{}
	for f, pg := range frames {
		if pg == nil {
			continue
		}
		if o, ok := res[pg.GetPageID()]; ok && !pg.IsDeallocated() {
			w.fail("page-in-two-frames", "page %d is resident in frames %d and %d", pg.GetPageID(), o, f)
		}
		res[pg.GetPageID()] = f
	}
	live := append([]types.PageID{}, w.pids...)
	for t := range w.news {
		for _, p := range w.news[t] {
			if !w.gone[p] {
				live = append(live, p)
			}
		}
	}
	sort.Slice(live, func(i, j int) bool { return live[i] < live[j] })
	want := func(t int, p types.PageID) (byte, bool) { v, ok := w.last[t][p]; return v, ok }
	// (1) through the pool
	for _, p := range live {
		pg := w.bpm.FetchPage(p)
		if pg == nil {
			w.fail("fetch-nil", "final FetchPage(%d) returned nil although nothing is pinned", p)
			continue
		}
		for t := range w.last {
			if v, ok := want(t, p); ok && pg.Data()[c13cLane+t] != v {
				w.fail("lost-write", "page %d read through the pool: lane of thread %d holds %#x, the thread last wrote %#x", p, t, pg.Data()[c13cLane+t], v)
			}
		}
		w.bpm.UnpinPage(p, false)
	}
	// (2) on disk after a flush of everything
	w.bpm.FlushAllPages()
	buf := make([]byte, common.PageSize)
	for _, p := range live {
		if err := w.dm.ReadPage(p, buf); err != nil {
			w.fail("disk-bytes", "live page %d not readable from disk after FlushAllPages: %v", p, err)
			continue
		}
		for t := range w.last {
			if v, ok := want(t, p); ok && buf[c13cLane+t] != v {
				w.fail("disk-bytes", "page %d on disk after FlushAllPages: lane of thread %d holds %#x, the thread last wrote %#x", p, t, buf[c13cLane+t], v)
			}
		}
	}
}

func c13cScenarios(thorough bool) []*core.Scenario {
	b := 3
	list := []c13cScenario{
		{"w0;w1||w0;w2/2frames", 2, [][]string{{"w0", "w1"}, {"w0", "w2"}}, b, false},
		{"w0;w1;w2||w1;w0;w2/2frames", 2, [][]string{{"w0", "w1", "w2"}, {"w1", "w0", "w2"}}, b, false},
		{"w0;new;r0||w1;w0/2frames", 2, [][]string{{"w0", "new", "r0"}, {"w1", "w0"}}, b, false},
		{"w0;f0;w0||w0;w1;w2/2frames", 2, [][]string{{"w0", "f0", "w0"}, {"w0", "w1", "w2"}}, b, false},
		{"new;w0||new;w1/2frames", 2, [][]string{{"new", "w0"}, {"new", "w1"}}, b, false},
		{"tmp;new;r0||w0;w1;w0/2frames", 2, [][]string{{"tmp", "new", "r0"}, {"w0", "w1", "w0"}}, b, false},
		// a deallocated id waits in the reusable list while two users ask for a new page
		{"tmp;new||new;w0/3frames", 3, [][]string{{"tmp", "new"}, {"new", "w0"}}, b, false},
		{"tmp;tmp;new||new;new/3frames", 3, [][]string{{"tmp", "tmp", "new"}, {"new", "new"}}, b, false},
		{"h0;u0||w1;w2;w0/2frames", 2, [][]string{{"h0", "u0"}, {"w1", "w2", "w0"}}, b, false},
		{"h0;new;u0||w1;w2;w0/3frames", 3, [][]string{{"h0", "new", "u0"}, {"w1", "w2", "w0"}}, b, false},
		{"w0;new||w0;w1||w1;w2/3frames", 3, [][]string{{"w0", "new"}, {"w0", "w1"}, {"w1", "w2"}}, b, false},
	}
	if thorough {
		for i := range list {
			list[i].Bound = 5
		}
		list = append(list,
			c13cScenario{"w0;r0||fa;w1;r0/2frames", 2, [][]string{{"w0", "r0"}, {"fa", "w1", "r0"}}, 2, true},
			c13cScenario{"w0;w1;w2||w2;w1;w0||fa/3frames", 3, [][]string{{"w0", "w1", "w2"}, {"w2", "w1", "w0"}, {"fa"}}, 2, true},
			c13cScenario{"tmp;tmp||new;w0||w1;w0/3frames", 3, [][]string{{"tmp", "tmp"}, {"new", "w0"}, {"w1", "w0"}}, 2, false},
		)
	}
	var out []*core.Scenario
	for _, x := range list {
		out = append(out, c13cBuild(x))
	}
	return out
}
