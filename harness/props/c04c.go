package props

import (
	"encoding/json"

	"verif/core"
)

// placeholder until the Engine C part is wired in (see sqlsched.go)
func c04Concurrent(c *core.Ctx) { sqlConcurrent(c, "C04") }

func c04ConcReplay(raw json.RawMessage) (string, bool) { return sqlConcReplay(raw, "C04") }
