package props

import (
	"fmt"
	"os"

	"verif/core"
)

func init() {
	core.Register(&core.Driver{Prop: "DBG", Serial: true, Run: func(c *core.Ctx) {
		w := os.Stderr
		dir := NewDir("dbg")
		db, f := OpenDB(dir+"/d", 128)
		fmt.Fprintln(w, "open", f)
		fmt.Fprintln(w, db.Auto("CREATE TABLE t(k INT, v VARCHAR(32));"))
		fmt.Fprintln(w, db.Auto("INSERT INTO t(k,v) VALUES (1,'a'),(2,'b'),(3,'c');"))
		fmt.Fprintln(w, db.Auto("INSERT INTO t(k,v) VALUES (7,'q');"))
		fmt.Fprintln(w, db.Auto("SELECT k,v FROM t WHERE k = 2;"))
		fmt.Fprintln(w, db.Auto("SELECT k,v FROM t WHERE k > -1;"))
		fmt.Fprintln(w, db.Auto("SELECT v,k FROM t WHERE k >= 2 OR k >= 2;"))
		fmt.Fprintln(w, db.Auto("UPDATE t SET v = 'zz' WHERE k = 3;"))
		fmt.Fprintln(w, db.Auto("DELETE FROM t WHERE k = 1;"))
		fmt.Fprintln(w, db.Auto("SELECT * FROM t;"))
		{
			tx := db.Begin()
			tb := db.Cat().GetTableByName("t")
			it := tb.Table().Iterator(tx.T)
			n := 0
			for tp := it.Current(); !it.End(); tp = it.Next() {
				n++
				fmt.Fprintln(w, "tuple", tp.GetRID(), tp.Size())
			}
			fmt.Fprintln(w, "heap rows", n)
			tx.Commit()
		}
		e, v := db.SDB.ExecuteSQLRetValues("SELECT * FROM t;")
		fmt.Fprintln(w, "direct", e, len(v))
		for _, tb := range db.Cat().GetAllTables() {
			fmt.Fprintln(w, "table", *tb.GetTableName(), tb.OID(), tb.Table().GetFirstPageID())
		}
		fmt.Fprintln(w, "shutdown", db.Shutdown())
		db, f = OpenDB(dir+"/d", 128)
		fmt.Fprintln(w, "reopen", f)
		fmt.Fprintln(w, db.Auto("SELECT * FROM t WHERE k = 2;"))
		fmt.Fprintln(w, db.Auto("SELECT * FROM t WHERE k = 2 OR k = 2;"))
		db.Kill()
		for _, kb := range []int{4, 8, 12, 16, 20, 24, 32, 40} {
			dir := NewDir("dbg")
			db, f := OpenDB(dir+"/d", kb)
			if f != nil {
				fmt.Fprintln(w, kb, "open fail", f)
				continue
			}
			r := db.Auto("CREATE TABLE t(k INT, v VARCHAR(32));")
			r2 := db.Auto("INSERT INTO t(k,v) VALUES (1,'a'),(2,'b'),(3,'c');")
			r3 := db.Auto("SELECT k,v FROM t WHERE k = 2;")
			fmt.Fprintln(w, kb, r.Fail, r2.Fail, r3)
			db.Kill()
		}
	}})
}
