package props

import (
	"fmt"
	"os"

	"verif/core"
)

func init() {
	core.Register(&core.Driver{Prop: "DBG", Serial: true, Run: func(c *core.Ctx) {
		w := os.Stderr
		wd := NewWorld(c14Cfg(c14Params{Seed: "empty", MemKB: 128, Depth: 2}))
		for _, tm := range wd.db.Cat().GetAllTables() {
			fmt.Fprintf(w, "table %s first page %d", *tm.GetTableName(), tm.Table().GetFirstPageID())
			for i, ix := range tm.Indexes() {
				if ix != nil {
					fmt.Fprintf(w, " idx%d %T", i, ix)
				}
			}
			fmt.Fprintln(w)
		}
		fmt.Fprintln(w, pinVector(wd))
		for i := 0; i < 3; i++ {
			wd.db.Auto(fmt.Sprintf("INSERT INTO t(k, v) VALUES (%d, 'seven');", 7+i))
			fmt.Fprintln(w, pinVector(wd))
		}
		wd.db.Auto("INSERT INTO u(k2, w) VALUES (1, 1);")
		fmt.Fprintln(w, pinVector(wd))
	}})
}
