package props

import (
	"fmt"
	"os"

	"verif/core"
)

func init() {
	core.Register(&core.Driver{Prop: "DBG", Serial: true, Run: func(c *core.Ctx) {
		w := os.Stderr
		for _, s := range c12Scenarios(false) {
			sc := s.build(2)
			sc.MaxEx = 4000
			c.Res = core.NewResult()
			core.ExploreSchedWhole(c, sc)
			fmt.Fprintln(w, s.Name, c.Res.States, c.Res.Transitions, c.Res.Extra)
		}
	}})
}
