package props
