package props

import (
	"fmt"
	"os"
	"time"

	"verif/core"
)

func init() {
	core.Register(&core.Driver{Prop: "DBG", Serial: true, Run: func(c *core.Ctx) {
		w := os.Stderr
		cw := c11Open([]string{"l", "r"}, map[string][]int{"l": {2}, "r": {1, 2}}, c11Stats{Name: "never"})
		qs := c11Queries([]string{"l", "r"}, false)
		fmt.Fprintln(w, "queries", len(qs))
		t0 := time.Now()
		nv := 0
		for i, q := range qs[:200] {
			t1 := time.Now()
			pfs, _, _ := cw.db.PlanVariants(q.SQL())
			nv += len(pfs)
			if i < 5 || time.Since(t1) > 100*time.Millisecond {
				fmt.Fprintln(w, i, q.SQL(), len(pfs), time.Since(t1))
			}
		}
		fmt.Fprintln(w, "200 queries planned:", time.Since(t0), "variants", nv)
	}})
}
