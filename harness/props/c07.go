package props

// C07 — indexes agree with their table whenever no transaction is active. Engine A at SQL level over
// histories of committed and aborted transactions (1-2 statements each: inserts, duplicate keys, deletes,
// key-changing updates, relocating updates with unchanged key) and clean / crash restarts, per index kind.
// Oracle at every quiescent point: for every key of the domain the rows the index returns (plan-level
// index scan, so the index is really used) equal the rows of the heap that hold that key (scan-path
// query); range scans return exactly the in-range rows, each once, in key order.

import (
	"encoding/json"
	"fmt"
	"strings"
	"time"

	"verif/core"
)

type c07Params struct {
	Idx   string `json:"index_kind"`
	Seed  string `json:"seed"`
	MemKB int    `json:"mem_kb"`
	Depth int    `json:"depth"`
	Rest  int    `json:"max_restarts"`
}

func c07Check(w *World, p c07Params, op string) *core.Violation {
	td := w.model.Tables["t"].Def
	keys := []any{int32(1), int32(2), int32(3), int32(10), int32(11), int32(30)}
	if p.Seed == "colliding" {
		keys = append(append([]any{}, c17HashBoundaryKeys()...), int32(7))
	}
	heap := func(pred Pred) (Rows, *core.Violation) {
		return w.Query((&Stmt{Kind: "select", Table: "t", Cols: []string{"*"}, Where: ForceScan(pred)}).SQL())
	}
	type col struct {
		name string
		keys []any
	}
	cols := []col{{"k", keys}}
	if p.Idx == "sql" {
		cols = append(cols, col{"v", []any{"", "a2", "again", "b2", "n10"}})
	}
	_ = td
	for _, c := range cols {
		for _, k := range c.keys {
			want, v := heap(Leaf{c.name, "=", k})
			if v != nil {
				v.Ignore = true // the table itself cannot be read: not an index matter
				return v
			}
			var got Rows
			if p.Idx == "hash" {
				got, v = w.PointIndex("t", c.name, k)
			} else {
				got, v = w.IndexRange("t", c.name, k, k)
			}
			if v != nil {
				v.Signature = "c07/" + strings.TrimPrefix(v.Signature, "c07/")
				return v
			}
			if got.Canon() != want.Canon() {
				return w.viol("index-lookup-disagrees-with-table", op, fmt.Sprintf("index lookup %s = %v returns %s, the table holds %s", c.name, k, got.Short(), want.Short()))
			}
		}
		if p.Idx == "hash" {
			continue
		}
		for i := range c.keys {
			for j := i; j < len(c.keys); j++ {
				want, v := heap(And{Leaf{c.name, ">=", c.keys[i]}, Leaf{c.name, "<=", c.keys[j]}})
				if v != nil {
					v.Ignore = true
					return v
				}
				got, v := w.IndexRange("t", c.name, c.keys[i], c.keys[j])
				if v != nil {
					return v
				}
				if got.Canon() != want.Canon() {
					return w.viol("index-range-disagrees-with-table", op, fmt.Sprintf("index range %s in [%v,%v] returns %s, the table holds %s", c.name, c.keys[i], c.keys[j], got.Short(), want.Short()))
				}
				ci := td.ColIdx(c.name)
				for r := 1; r < len(got); r++ {
					if cmp, ok := cmpVal(got[r-1][ci], got[r][ci]); ok && cmp > 0 {
						return w.viol("index-range-not-in-key-order", op, fmt.Sprintf("index range %s in [%v,%v] returns %s", c.name, c.keys[i], c.keys[j], got.Short()))
					}
				}
			}
		}
		// open-ended scans
		if want, v := heap(Leaf{c.name, ">=", c.keys[0]}); v == nil {
			got, v := w.IndexRange("t", c.name, nil, nil)
			if v != nil {
				return v
			}
			all, v2 := w.Query("SELECT * FROM t;")
			if v2 == nil && got.Canon() != all.Canon() {
				return w.viol("full-index-scan-disagrees-with-table", op, fmt.Sprintf("unbounded index scan on %s returns %s, the table holds %s", c.name, got.Short(), all.Short()))
			}
			_ = want
		}
	}
	w.last = "agree"
	return nil
}

func c07Cfg(p c07Params) *WorldCfg {
	p3 := c03Params{Idx: p.Idx, Seed: p.Seed, MemKB: p.MemKB, Depth: 2}
	if p.Seed == "colliding" {
		p3.Seed = "small"
	}
	cfg := c03Cfg(p3)
	cfg.Prop, cfg.Driver = "C07", "c07"
	if p.Seed == "colliding" {
		// hash kind: keys whose home is the same (last) slot of a block page of the linear-probe table - a
		// removed entry leaves a tombstone on the probe path of the surviving one
		bk := c17HashBoundaryKeys()
		kv := []string{"k", "v"}
		cfg.SeedStmts = []*Stmt{{Kind: "insert", Table: "t", Cols: kv, Rows: [][]any{{bk[0], "x"}, {bk[1], "y"}, {int32(7), "z"}}}}
		cfg.Stmts = []*Stmt{
			{Kind: "delete", Table: "t", Where: ForceScan(Leaf{"k", "=", bk[0]})},
			{Kind: "delete", Table: "t", Where: ForceScan(Leaf{"k", "=", bk[1]})},
			{Kind: "insert", Table: "t", Cols: kv, Rows: [][]any{{bk[2], "w"}}},
			{Kind: "insert", Table: "t", Cols: kv, Rows: [][]any{{bk[0], "again"}}},
			{Kind: "insert", Table: "t", Cols: kv, Rows: [][]any{{int32(7), "dup"}}},
			{Kind: "delete", Table: "t", Where: ForceScan(And{Leaf{"k", "=", int32(7)}, Leaf{"v", "=", "z"}})},
		}
	}
	cfg.Before, cfg.After, cfg.Filter, cfg.KeyExtra = nil, nil, nil, nil
	nIn := func(w *World) int {
		n := 0
		for i := len(w.hist) - 1; i >= 0 && strings.HasPrefix(w.hist[i], "sql:1:"); i-- {
			n++
		}
		return n
	}
	cfg.Ops = func(w *World) []string {
		var ops []string
		_, open := w.txns[1]
		usable := func(i int, s *Stmt) bool {
			if s.Kind == "select" {
				return false
			}
			return !(p.Idx == "uniq" && !uniqOK(w, s))
		}
		if open {
			if nIn(w) < 2 {
				for i, s := range w.cfg.Stmts {
					if usable(i, s) {
						ops = append(ops, fmt.Sprintf("sql:1:%d", i))
					}
				}
			}
			if nIn(w) > 0 {
				ops = append(ops, "commit:1", "abort:1")
			}
			return ops
		}
		for i, s := range w.cfg.Stmts {
			if usable(i, s) {
				ops = append(ops, fmt.Sprintf("sql:0:%d", i))
			}
		}
		ops = append(ops, "begin:1")
		if w.nRest < p.Rest {
			ops = append(ops, "restart:clean", "restart:crash")
		}
		return ops
	}
	cfg.After = func(w *World, op string) *core.Violation {
		if len(w.txns) != 0 || op == "begin:1" {
			return nil
		}
		return c07Check(w, p, op)
	}
	cfg.Filter = func(w *World, op string, v *core.Violation) *core.Violation {
		// statements that fail or answer wrongly on their own are C06/C04 matters; only the index/table
		// comparison of c07Check is reported here
		if !strings.Contains(v.Signature, "index-") && !strings.Contains(v.Signature, "restart-failed") {
			v.Ignore = true
		}
		return v
	}
	return cfg
}

func init() {
	core.Register(&core.Driver{
		Prop: "C07",
		Budget: func(tier string) time.Duration {
			if tier == "thorough" {
				return 25 * time.Minute
			}
			return 420 * time.Second
		},
		Assume: []string{
			"index side is read with plan-level index scans (RangeScanWithIndex / PointScanWithIndex), the table side with scan-path queries (P OR P)",
			"index kinds: skip list on both columns (SQL DDL); unique skip list, B-tree, hash on the key column via catalog.CreateTable; hash without UPDATE, unique without duplicate keys",
			"crash restart = process death at a quiescent point (crash points inside transactions: C01/C02)",
		},
		Run: func(c *core.Ctx) {
			depth, rest := 3, 1
			if c.Thorough() {
				depth, rest = 5, 2
			}
			for _, kind := range []string{"sql", "uniq", "btree", "hash"} {
				for _, seed := range []string{"small", "page-full"} {
					p := c07Params{Idx: kind, Seed: seed, MemKB: 128, Depth: depth, Rest: rest}
					if kind == "sql" && seed == "small" {
						p.Depth++ // the kind every SQL table uses gets one more level
					}
					core.BFS(c, core.SeqConfig{Name: fmt.Sprintf("c07/%s/%s", kind, seed), Params: p,
						Fresh: func() core.Instance { return NewWorld(c07Cfg(p)) }, MaxDepth: p.Depth, SplitDepth: 1})
				}
			}
			pc := c07Params{Idx: "hash", Seed: "colliding", MemKB: 128, Depth: depth + 1, Rest: rest}
			core.BFS(c, core.SeqConfig{Name: "c07/hash/colliding", Params: pc,
				Fresh: func() core.Instance { return NewWorld(c07Cfg(pc)) }, MaxDepth: pc.Depth, SplitDepth: 1})
		},
		Replay: func(raw json.RawMessage) (string, bool) {
			var rp struct {
				History []string  `json:"history"`
				Params  c07Params `json:"params"`
			}
			json.Unmarshal(raw, &rp)
			return core.ReplayHistory(func() core.Instance { return NewWorld(c07Cfg(rp.Params)) }, rp.History)
		},
	})
}
