package props

// C06 — every supported single-table statement returns the reference answer.
// Bounded-exhaustive inputs (Engine A): for three schemas, a set of adversarial table contents plus all
// small multisets over a value domain, ALL predicate trees up to a number of leaves over = <> < <= > >=
// with AND/OR, every select list, every SET column order, single/multi-row inserts - each statement is
// executed on the real engine under every cost-minimal plan (hook H3) and compared with the row model;
// the index path (P) is also compared with the scan path (P OR P).

import (
	"encoding/json"
	"fmt"
	"math"
	"sort"
	"strings"
	"time"

	"github.com/ryogrid/SamehadaDB/lib/execution/plans"
	"github.com/ryogrid/SamehadaDB/lib/parser"
	"github.com/ryogrid/SamehadaDB/lib/types"

	"verif/core"
)

type c06Schema struct {
	Name   string
	Def    TableDef
	Consts map[string][]any // per column: constants used in predicates (domain + off-domain neighbours)
	Dom    map[string][]any // per column: values stored in rows
	Fixed  [][][]any        // adversarial table contents
	// Prepared: contents reached through a history (rows inserted, then statements applied): heaps with an
	// emptied head / middle / tail page, reused slots, index nodes emptied and removed, mass key changes
	Prepared []c06Prepared
}

type c06Prepared struct {
	Rows [][]any
	Prep []*Stmt
}

// c06Content is one table content: rows inserted in one statement, then (PrepIdx >= 0) the statements of
// sc.Prepared[PrepIdx].Prep.
type c06Content struct {
	Rows    [][]any
	PrepIdx int
}

func (ct c06Content) prep(sc *c06Schema) []*Stmt {
	if ct.PrepIdx < 0 {
		return nil
	}
	return sc.Prepared[ct.PrepIdx].Prep
}

func (ct c06Content) describe(sc *c06Schema) string {
	s := shortRows(ct.Rows)
	for _, st := range ct.prep(sc) {
		s += "; then " + shortSQL(st.SQL())
	}
	return s
}

// c06Wide(i): 590-byte strings, distinct per i, sorting between '' and 'a'
func c06Wide(i int) string { return fmt.Sprintf("%s%03d", strings.Repeat("W", 587), i) }


func c06Schemas() []*c06Schema {
	i := func(v int) any { return int32(v) }
	long := bigStr("L", 600)
	sInt := &c06Schema{Name: "int-int", Def: TableDef{Name: "t", Cols: []ColDef{{"a", TInt}, {"b", TInt}}},
		Dom:    map[string][]any{"a": {i(1), i(2), i(3)}, "b": {i(10), i(20)}},
		Consts: map[string][]any{"a": {i(math.MinInt32), i(-1), i(0), i(1), i(2), i(3), i(4), i(math.MaxInt32)}, "b": {i(10), i(15), i(20)}},
		Fixed: [][][]any{
			{},
			{{i(1), i(10)}, {i(1), i(10)}, {i(2), i(20)}, {i(3), i(10)}},
			{{i(math.MinInt32), i(0)}, {i(-1), i(-1)}, {i(0), i(0)}, {i(1), i(1)}, {i(math.MaxInt32), i(0)}},
			{{i(2), i(10)}, {i(2), i(20)}, {i(2), i(10)}},
		}}
	f := func(v float32) any { return v }
	sFloat := &c06Schema{Name: "int-float", Def: TableDef{Name: "t", Cols: []ColDef{{"a", TInt}, {"f", TFloat}}},
		Dom:    map[string][]any{"a": {i(1), i(2)}, "f": {f(0.5), f(1.5), f(2.25)}},
		Consts: map[string][]any{"a": {i(1), i(2)}, "f": {f(-1.5), f(0), f(0.5), f(1.5), f(2), f(2.25), f(3), f(3.0e38)}},
		Fixed: [][][]any{
			{{i(1), f(0.5)}, {i(2), f(0.5)}, {i(3), f(2.25)}},
			{{i(1), f(-1.5)}, {i(2), f(float32(math.Copysign(0, -1)))}, {i(3), f(0)}, {i(4), f(1e-40)}, {i(5), f(3.0e38)}, {i(6), f(-3.0e38)}},
		}}
	s := func(v string) any { return v }
	sStr := &c06Schema{Name: "int-varchar", Def: TableDef{Name: "t", Cols: []ColDef{{"a", TInt}, {"s", TStr}}},
		Dom:    map[string][]any{"a": {i(1), i(2)}, "s": {s(""), s("a"), s("ab"), s("b")}},
		Consts: map[string][]any{"a": {i(1), i(2)}, "s": {s(""), s("a"), s("aa"), s("ab"), s("b"), s("c")}},
		Fixed: [][][]any{
			{{i(1), s("")}, {i(2), s("a")}, {i(3), s("a")}, {i(4), s("it's")}, {i(5), s("a b")}},
			// keys descending in insertion order, string lengths mixed: a multi-row UPDATE through the index on a
			// visits the newest (physically lowest) row first; with SET s = 'mmmmmm' that row shrinks (it is
			// relocated: delete-marked where it was) and an older row of the same page then grows in place
			{{i(3), s("zz")}, {i(2), s("a")}, {i(1), s("abcdefgh")}, {i(0), s("")}},
			{{i(1), s(long)}, {i(2), s(long + "x")}, {i(3), s(long)}, {i(4), s("z")}, {i(5), s(long)}, {i(6), s(long)}, {i(7), s(long)}, {i(8), s(long)}},
		}}
	// 14 wide rows = three heap pages (6+6+2 rows) and a multi-node index on s; a = 1 on the first page,
	// 2 on the second, 3 on the third
	var wide [][]any
	for k := 0; k < 14; k++ {
		wide = append(wide, []any{i(1 + k/6), s(c06Wide(k))})
	}
	del := func(p Pred) *Stmt { return &Stmt{Kind: "delete", Table: "t", Where: p} }
	sStr.Prepared = []c06Prepared{
		{wide, nil},
		{wide, []*Stmt{del(Leaf{"a", "=", i(1)})}},  // head page emptied
		{wide, []*Stmt{del(Leaf{"a", "=", i(2)})}},  // middle page emptied
		{wide, []*Stmt{del(Leaf{"a", ">=", i(2)})}}, // everything after the head page emptied
		{wide, []*Stmt{del(Leaf{"a", "=", i(1)}), {Kind: "insert", Table: "t", Cols: []string{"a", "s"}, Rows: [][]any{{i(1), s(c06Wide(50))}, {i(2), s("a")}, {i(1), s(c06Wide(3))}}}}}, // slots of the emptied page reused
		{wide, []*Stmt{{Kind: "update", Table: "t", Set: []SetItem{{"s", s(c06Wide(99))}}, Where: Leaf{"a", "=", i(2)}}}},                                                                     // six index entries move to one key
		{wide, []*Stmt{del(Leaf{"a", "<=", i(3)}), {Kind: "insert", Table: "t", Cols: []string{"a", "s"}, Rows: [][]any{{i(2), s("ab")}}}}},                                                  // table emptied, then one row
	}
	sInt.Prepared = []c06Prepared{
		{[][]any{{i(1), i(10)}, {i(2), i(20)}, {i(3), i(10)}}, []*Stmt{del(Leaf{"a", "<=", i(3)}), {Kind: "insert", Table: "t", Cols: []string{"a", "b"}, Rows: [][]any{{i(2), i(10)}, {i(2), i(20)}}}}},
		{[][]any{{i(1), i(10)}, {i(2), i(20)}, {i(3), i(10)}}, []*Stmt{{Kind: "update", Table: "t", Set: []SetItem{{"a", i(2)}}, Where: Leaf{"b", "=", i(10)}}}},
	}
	return []*c06Schema{sInt, sFloat, sStr}
}

// multisets of up to n rows over the row domain (cartesian product of the column domains).
func c06Multisets(sc *c06Schema, n int) [][][]any {
	var rows [][]any
	var rec func(ci int, cur []any)
	rec = func(ci int, cur []any) {
		if ci == len(sc.Def.Cols) {
			rows = append(rows, append([]any{}, cur...))
			return
		}
		for _, v := range sc.Dom[sc.Def.Cols[ci].Name] {
			rec(ci+1, append(cur, v))
		}
	}
	rec(0, nil)
	out := [][][]any{}
	var ms func(start int, cur [][]any)
	ms = func(start int, cur [][]any) {
		if len(cur) > 0 {
			out = append(out, append([][]any{}, cur...))
		}
		if len(cur) == n {
			return
		}
		for i := start; i < len(rows); i++ {
			ms(i, append(cur, rows[i]))
		}
	}
	ms(0, nil)
	return out
}

var c06Ops = []string{"=", "<>", "<", "<=", ">", ">="}

func c06Leaves(sc *c06Schema, accept func(v any) bool) []Pred {
	var out []Pred
	for _, c := range sc.Def.Cols {
		for _, op := range c06Ops {
			for _, k := range sc.Consts[c.Name] {
				if accept(k) {
					out = append(out, Leaf{c.Name, op, k})
				}
			}
		}
	}
	return out
}

// c06Preds: all predicate trees with up to maxLeaves leaves. For 3 leaves both shapes ((x.y).z, x.(y.z)).
func c06Preds(leaves []Pred, maxLeaves int, limit2 []Pred) []Pred {
	out := append([]Pred{}, leaves...)
	if maxLeaves >= 2 {
		for _, l := range leaves {
			for _, r := range leaves {
				out = append(out, And{l, r}, Or{l, r})
			}
		}
	}
	if maxLeaves >= 3 {
		for _, l := range limit2 {
			for _, m := range limit2 {
				for _, r := range limit2 {
					out = append(out, And{And{l, m}, r}, And{l, Or{m, r}}, Or{And{l, m}, r}, And{l, And{m, r}})
				}
			}
		}
	}
	return out
}

// ---- literal forms ----------------------------------------------------------------------------------------

// litAccepted reports whether the front end accepts the SQL literal of v in a WHERE clause, i.e. the
// parser returns (without panic or error) a constant of the intended type and value. accepted-but-altered
// is returned separately: that is a C06 violation.
func litAccepted(col string, v any) (accepted bool, altered string) {
	sql := fmt.Sprintf("SELECT * FROM t WHERE %s = %s;", col, Lit(v))
	var got *types.Value
	f := guard(func() {
		qi, err := parser.ProcessSQLStr(&sql)
		if err != nil || qi.WhereExpression == nil {
			return
		}
		if r, ok := qi.WhereExpression.Right.(*types.Value); ok {
			got = r
		}
	})
	if f != nil || got == nil {
		return false, ""
	}
	want := toValue(v)
	if got.ValueType() != want.ValueType() {
		return false, "" // e.g. exponent form read as a string: the statement is then refused by the type check
	}
	if !got.CompareEquals(want) {
		return true, fmt.Sprintf("literal %s in WHERE is read as %v", Lit(v), got.ToIFValue())
	}
	return true, ""
}

// litAcceptedIn reports acceptance of the literal of v in a VALUES list and in a SET clause.
func litAcceptedIn(clause string, sc *c06Schema, col ColDef, v any) (accepted bool, altered string) {
	var got *types.Value
	other := sc.Def.Cols[0]
	if other.Name == col.Name {
		other = sc.Def.Cols[1]
	}
	otherLit := map[ColType]string{TInt: "1", TFloat: "1.5", TStr: "'x'"}[other.Type]
	var sql string
	if clause == "values" {
		sql = fmt.Sprintf("INSERT INTO t(%s, %s) VALUES (%s, %s);", col.Name, other.Name, Lit(v), otherLit)
	} else {
		sql = fmt.Sprintf("UPDATE t SET %s = %s WHERE %s = %s;", col.Name, Lit(v), other.Name, otherLit)
	}
	f := guard(func() {
		qi, err := parser.ProcessSQLStr(&sql)
		if err != nil {
			return
		}
		if clause == "values" && len(qi.Values) == 2 {
			got = qi.Values[0]
		}
		if clause == "set" && len(qi.SetExpressions) == 1 {
			got = qi.SetExpressions[0].UpdateValue
		}
	})
	if f != nil || got == nil {
		return false, ""
	}
	want := toValue(v)
	if got.ValueType() != want.ValueType() {
		return false, ""
	}
	if !got.CompareEquals(want) {
		return true, fmt.Sprintf("literal %s in %s is read as %v", Lit(v), strings.ToUpper(clause), got.ToIFValue())
	}
	return true, ""
}

// ---- one table content ------------------------------------------------------------------------------------

type c06Env struct {
	sc    *c06Schema
	db    *DB
	model *Model
	dir   string
}

func c06Open(sc *c06Schema, ct c06Content) *c06Env {
	rows := ct.Rows
	e := &c06Env{sc: sc, model: NewModel()}
	e.dir = NewDir("c06")
	db, f := OpenDB(e.dir+"/d", 128)
	if f != nil {
		panic(f.String())
	}
	e.db = db
	db.MustAuto(sc.Def.CreateSQL())
	e.model.Create(sc.Def)
	if len(rows) > 0 {
		// rows are stored through the plan API (SQL literals cannot express all of them)
		var vals [][]types.Value
		for _, r := range rows {
			var vr []types.Value
			for _, v := range r {
				vr = append(vr, toValue(v))
			}
			vals = append(vals, vr)
		}
		t := db.Begin()
		res := t.ExecPlan(plans.NewInsertPlanNode(vals, db.Cat().GetTableByName("t").OID()))
		if res.Fail != nil || res.Aborted {
			panic(fmt.Sprint("seed insert failed: ", res.Fail))
		}
		t.Commit()
		var cols []string
		for _, c := range sc.Def.Cols {
			cols = append(cols, c.Name)
		}
		e.model.Apply(0, &Stmt{Kind: "insert", Table: "t", Cols: cols, Rows: rows})
	}
	for _, st := range ct.prep(sc) {
		if r := db.Auto(st.SQL()); r.Fail != nil || r.Err != "" || r.Aborted {
			panic(fmt.Sprintf("preparing statement %s failed: %+v", shortSQL(st.SQL()), r))
		}
		e.model.Apply(0, st)
	}
	return e
}

func (e *c06Env) Close() {
	e.db.Kill()
	removeAll(e.dir)
}

type c06Verdict struct {
	clause, detail string
}

// runSelect executes sel under every cost-minimal plan and compares with the model.
func (e *c06Env) runSelect(sel *Stmt, res *core.Result) *c06Verdict {
	sql := sel.SQL()
	want := e.model.Apply(0, sel).Rows.Canon()
	pfs, plansS, f := e.db.PlanVariants(sql)
	if f != nil {
		return &c06Verdict{"planning-failed/" + f.Kind + "@" + f.Where, sql + " -> " + f.String()}
	}
	if len(pfs) == 0 {
		pfs, plansS = []PlanChoices{nil}, []string{"(planner path)"}
	}
	for i, pf := range pfs {
		SetPlanChoices(pf)
		r := e.db.Auto(sql)
		SetPlanChoices(nil)
		res.Transitions++
		kind := planKind(plansS[i])
		res.Op("select/" + kind)
		if r.Fail != nil {
			return &c06Verdict{"statement-failed/" + r.Fail.Kind + "@" + r.Fail.Where, sql + " [" + plansS[i] + "] -> " + r.Fail.String()}
		}
		if r.Err != "" {
			return &c06Verdict{"statement-refused", sql + " -> " + r.Err}
		}
		if r.Aborted {
			return &c06Verdict{"statement-aborted-without-concurrency", sql}
		}
		if got := r.Rows.Canon(); got == want {
			ne := "empty"
			if len(r.Rows) > 0 {
				ne = "rows"
			}
			res.Outcome("ok:select/" + kind + "/" + ne)
		} else {
			// the right rows with the columns in table order instead of the order written?
			if len(sel.Cols) > 1 && sel.Cols[0] != "*" {
				var tblOrder []string
				for _, cd := range e.sc.Def.Cols {
					for _, sc := range sel.Cols {
						if sc == cd.Name {
							tblOrder = append(tblOrder, sc)
						}
					}
				}
				alt := &Stmt{Kind: "select", Table: "t", Cols: tblOrder, Where: sel.Where}
				if e.model.Apply(0, alt).Rows.Canon() == got {
					return &c06Verdict{"select-list-order-ignored/" + kind, fmt.Sprintf("%s\n  plan  : %s\n  engine: %s\n  model : %s", sql, plansS[i], r.Rows.Short(), e.model.Apply(0, sel).Rows.Short())}
				}
			}
			return &c06Verdict{"wrong-answer/select/" + kind + "/" + predShape(sel.Where), fmt.Sprintf("%s\n  plan  : %s\n  engine: %s\n  model : %s", sql, plansS[i], r.Rows.Short(), e.model.Apply(0, sel).Rows.Short())}
		}
	}
	return nil
}

func planKind(s string) string {
	switch {
	case strings.Contains(s, "RangeScanWithIndex"):
		return "index-range-scan"
	case strings.Contains(s, "PointScanWithIndex"):
		return "index-point-scan"
	case strings.Contains(s, "SeqScan"):
		return "seq-scan"
	}
	return "other"
}

// predShape abstracts a predicate for signatures: operators and which columns coincide, not the constants.
func predShape(p Pred) string {
	if p == nil {
		return "none"
	}
	cols := map[string]string{}
	var rec func(p Pred) string
	rec = func(p Pred) string {
		switch x := p.(type) {
		case Leaf:
			if _, ok := cols[x.Col]; !ok {
				cols[x.Col] = string(rune('x' + len(cols)))
			}
			return cols[x.Col] + x.Op + "c"
		case And:
			return "(" + rec(x.L) + " AND " + rec(x.R) + ")"
		case Or:
			return "(" + rec(x.L) + " OR " + rec(x.R) + ")"
		}
		return "?"
	}
	return rec(p)
}

func removeAll(d string) { _ = removeAllImpl(d) }

// ---- the driver ---------------------------------------------------------------------------------------------

func c06Run(c *core.Ctx) {
	res := c.Res
	maxRows, maxLeaves := 2, 2
	if c.Thorough() {
		maxRows, maxLeaves = 3, 3
	}
	res.Bound["multiset_rows"] = maxRows
	res.Bound["predicate_leaves"] = maxLeaves
	item := 0
	viol := func(sc *c06Schema, content c06Content, v *c06Verdict, stmt string) {
		res.Outcome("VIOLATION:" + v.clause)
		res.Violate(&core.Violation{Property: "C06", Signature: "sql/" + v.clause,
			Detail: fmt.Sprintf("schema %s, table contents %v\n%s", sc.Name, content.describe(sc), v.detail),
			Replay: map[string]any{"schema": sc.Name, "rows": content.Rows, "prepared": content.PrepIdx, "sql": stmt}})
	}
	for _, sc := range c06Schemas() {
		// literal acceptance pre-pass
		accept := map[string]bool{}
		var acceptTable []string
		for _, col := range sc.Def.Cols {
			for _, k := range append(append([]any{}, sc.Consts[col.Name]...), extraLits(col.Type)...) {
				ok, altered := litAccepted(col.Name, k)
				accept[col.Name+"|"+fmt.Sprint(k)] = ok && altered == ""
				acceptTable = append(acceptTable, fmt.Sprintf("%s %s: accepted=%v %s", col.Name, firstN(Lit(k), 20), ok, altered))
				if altered != "" && c.Shard == 0 {
					viol(sc, c06Content{nil, -1}, &c06Verdict{"literal-altered/" + litClass(k), altered}, "")
				}
			}
		}
		// adversarial constants for INSERT VALUES and UPDATE SET, per clause
		dmlVals := map[string][]any{}
		for _, col := range sc.Def.Cols {
			for _, k := range extraLits(col.Type) {
				okV, altV := litAcceptedIn("values", sc, col, k)
				okS, altS := litAcceptedIn("set", sc, col, k)
				acceptTable = append(acceptTable, fmt.Sprintf("%s %s: VALUES accepted=%v %s; SET accepted=%v %s", col.Name, firstN(Lit(k), 20), okV, altV, okS, altS))
				for _, alt := range []string{altV, altS} {
					if alt != "" && c.Shard == 0 {
						viol(sc, c06Content{nil, -1}, &c06Verdict{"literal-altered/" + litClass(k), alt}, "")
					}
				}
				if okV && okS && altV == "" && altS == "" {
					dmlVals[col.Name] = append(dmlVals[col.Name], k)
				}
			}
		}
		if c.Shard == 0 {
			res.Extra["literal_forms["+sc.Name+"]"] = acceptTable
		}
		leaves := c06Leaves(sc, func(v any) bool { return true })
		var okLeaves []Pred
		for _, l := range leaves {
			lf := l.(Leaf)
			if accept[lf.Col+"|"+fmt.Sprint(lf.Val)] {
				okLeaves = append(okLeaves, l)
			}
		}
		// a reduced leaf set for the 3-leaf level
		var few []Pred
		for i, l := range okLeaves {
			if i%5 == 0 {
				few = append(few, l)
			}
		}
		preds := c06Preds(okLeaves, maxLeaves, few)
		single := c06Preds(okLeaves, 1, nil)
		var contents []c06Content
		for _, f := range sc.Fixed {
			contents = append(contents, c06Content{f, -1})
		}
		for k, pr := range sc.Prepared {
			contents = append(contents, c06Content{pr.Rows, k})
		}
		small := c06Multisets(sc, maxRows)
		res.Bound["contents["+sc.Name+"]"] = fmt.Sprintf("%d adversarial + %d prepared by a history + %d multisets; %d predicates (all trees <= %d leaves over %d leaves)", len(sc.Fixed), len(sc.Prepared), len(small), len(preds), maxLeaves, len(okLeaves))
		var colNames []string
		for _, cd := range sc.Def.Cols {
			colNames = append(colNames, cd.Name)
		}
		selLists := [][]string{{"*"}, {colNames[0]}, {colNames[1]}, {colNames[0], colNames[1]}, {colNames[1], colNames[0]}}
		// (1) adversarial contents x all predicates;  (2) all small multisets x single-leaf predicates and a
		// stride of the 2-leaf ones
		type job struct {
			rows  c06Content
			preds []Pred
		}
		var jobs []job
		for _, ct := range contents {
			jobs = append(jobs, job{ct, preds})
		}
		for i, ct := range small {
			ps := append([]Pred{}, single...)
			for j := i % 7; j < len(preds); j += 7 {
				ps = append(ps, preds[j])
			}
			jobs = append(jobs, job{c06Content{ct, -1}, ps})
		}
		for _, jb := range jobs {
			item++
			if !c.Mine(item) {
				continue
			}
			if c.Expired() {
				return
			}
			env := c06Open(sc, jb.rows)
			res.States++
			dead := false
			for pi, p := range jb.preds {
				lists := selLists[:1]
				if pi%11 == 0 {
					lists = selLists
				}
				for _, sl := range lists {
					sel := &Stmt{Kind: "select", Table: "t", Cols: sl, Where: p}
					res.Traces++
					if v := env.runSelect(sel, res); v != nil {
						viol(sc, jb.rows, v, sel.SQL())
						if strings.HasPrefix(v.clause, "statement-failed") {
							dead = true // a panic may leave latches behind: this instance is finished
						}
					}
					if dead {
						break
					}
				}
				if dead {
					break
				}
			}
			env.Close()
			if dead {
				continue
			}
			// DML: every statement on a fresh copy of the table
			c06DML(c, sc, jb.rows, okLeaves, dmlVals, viol)
		}
	}
}

func shortRows(rows [][]any) string {
	s := fmt.Sprint(rows)
	if len(s) > 200 {
		s = s[:200] + "…"
	}
	return s
}

func litClass(v any) string {
	switch x := v.(type) {
	case int32:
		if x < 0 {
			return "negative-integer"
		}
		return "unsigned-integer"
	case float32:
		if x < 0 {
			return "negative-decimal"
		}
		return "decimal"
	case string:
		switch {
		case x == "":
			return "empty-string"
		case strings.Contains(x, "'"):
			return "quote-escaped-string"
		case strings.Contains(x, " "):
			return "string-with-space"
		}
		return "plain-string"
	}
	return "?"
}

func extraLits(t ColType) []any {
	switch t {
	case TInt:
		return []any{int32(-1), int32(math.MinInt32), int32(math.MaxInt32)}
	case TFloat:
		return []any{float32(-1.5), float32(1e10)}
	}
	return []any{"it's", "a b", " lead", "trail "}
}

// c06DML runs UPDATE / DELETE / INSERT statements, each on a fresh database holding rows, and compares
// the table afterwards (through a scan-path read) with the model.
func c06DML(c *core.Ctx, sc *c06Schema, rows c06Content, leaves []Pred, dmlVals map[string][]any, viol func(*c06Schema, c06Content, *c06Verdict, string)) {
	res := c.Res
	cols := sc.Def.Cols
	var stmts []*Stmt
	// a handful of predicates: every operator once per column
	var ps []Pred
	seen := map[string]bool{}
	for _, l := range leaves {
		lf := l.(Leaf)
		if !seen[lf.Col+lf.Op] {
			seen[lf.Col+lf.Op] = true
			ps = append(ps, l)
		}
	}
	if len(ps) >= 2 {
		ps = append(ps, And{ps[0], ps[len(ps)-1]}, Or{ps[1], ps[len(ps)-2]})
	}
	v0 := sc.Dom[cols[0].Name][0]
	v1 := sc.Dom[cols[1].Name][len(sc.Dom[cols[1].Name])-1]
	if cols[1].Type == TStr {
		// a value of middle length: in one multi-row statement some rows shrink and others grow
		for _, p := range ps {
			stmts = append(stmts, &Stmt{Kind: "update", Table: "t", Set: []SetItem{{cols[1].Name, "mmmmmm"}}, Where: p})
		}
		stmts = append(stmts, &Stmt{Kind: "update", Table: "t", Set: []SetItem{{cols[1].Name, "mmmmmm"}}})
	}
	for _, p := range ps {
		stmts = append(stmts,
			&Stmt{Kind: "delete", Table: "t", Where: p},
			&Stmt{Kind: "update", Table: "t", Set: []SetItem{{cols[1].Name, v1}}, Where: p},
			&Stmt{Kind: "update", Table: "t", Set: []SetItem{{cols[0].Name, v0}}, Where: p},
			&Stmt{Kind: "update", Table: "t", Set: []SetItem{{cols[0].Name, v0}, {cols[1].Name, v1}}, Where: p},
			&Stmt{Kind: "update", Table: "t", Set: []SetItem{{cols[1].Name, v1}, {cols[0].Name, v0}}, Where: p})
	}
	names := []string{cols[0].Name, cols[1].Name}
	rev := []string{cols[1].Name, cols[0].Name}
	stmts = append(stmts,
		&Stmt{Kind: "insert", Table: "t", Cols: names, Rows: [][]any{{v0, v1}}},
		&Stmt{Kind: "insert", Table: "t", Cols: rev, Rows: [][]any{{v1, v0}}},
		&Stmt{Kind: "insert", Table: "t", Cols: names, Rows: [][]any{{v0, v1}, {sc.Dom[cols[0].Name][1], v1}}},
		&Stmt{Kind: "delete", Table: "t"},
		&Stmt{Kind: "update", Table: "t", Set: []SetItem{{cols[1].Name, v1}}})
	// adversarial literal forms (negative numbers, quotes, spaces, ...) that the front end accepts
	for ci, cd := range cols {
		for _, k := range dmlVals[cd.Name] {
			row := []any{v0, v1}
			row[ci] = k
			stmts = append(stmts,
				&Stmt{Kind: "insert", Table: "t", Cols: names, Rows: [][]any{row}},
				&Stmt{Kind: "update", Table: "t", Set: []SetItem{{cd.Name, k}}})
		}
	}
	all := &Stmt{Kind: "select", Table: "t", Cols: []string{"*"}, Where: ForceScan(Leaf{cols[0].Name, ">=", int32(math.MinInt32)})}
	for _, st := range stmts {
		if c.Expired() {
			return
		}
		env := c06Open(sc, rows)
		sql := st.SQL()
		r := env.db.Auto(sql)
		res.Traces++
		res.Transitions++
		res.Op(st.Kind)
		var v *c06Verdict
		switch {
		case r.Fail != nil:
			v = &c06Verdict{"statement-failed/" + st.Kind + "/" + r.Fail.Kind + "@" + r.Fail.Where, sql + " -> " + r.Fail.String()}
		case r.Err != "":
			v = &c06Verdict{"statement-refused/" + st.Kind, sql + " -> " + r.Err}
		case r.Aborted:
			v = &c06Verdict{"statement-aborted-without-concurrency/" + st.Kind, sql}
		default:
			env.model.Apply(0, st)
			want := env.model.Apply(0, all).Rows
			got := env.db.Auto(all.SQL())
			if got.Fail != nil {
				v = &c06Verdict{"read-back-failed/" + st.Kind + "/" + got.Fail.Kind + "@" + got.Fail.Where, sql + "; then " + all.SQL() + " -> " + got.Fail.String()}
			} else if got.Rows.Canon() != want.Canon() {
				shape := predShape(st.Where)
				if st.Kind == "update" {
					shape += fmt.Sprintf("/set%d", len(st.Set))
					if len(st.Set) == 2 && st.Set[0].Col == cols[1].Name {
						shape += "-reversed"
					}
				}
				if st.Kind == "insert" {
					shape = fmt.Sprintf("rows%d", len(st.Rows))
				}
				v = &c06Verdict{"wrong-effect/" + st.Kind + "/" + shape, fmt.Sprintf("%s\n  table afterwards: %s\n  model           : %s", sql, got.Rows.Short(), want.Short())}
			}
			// the effect must be visible through the index path as well (every stored value of every column
			// as point key): a statement that updates the table but leaves an index entry behind, or pointing
			// at the old place of a relocated row, answers later index lookups wrongly
			if v == nil {
				seenKey := map[string]bool{}
				for ci, cd := range cols {
					for _, r := range want {
						k := r[ci]
						if seenKey[cd.Name+"|"+fmt.Sprint(k)] {
							continue
						}
						seenKey[cd.Name+"|"+fmt.Sprint(k)] = true
						if lf, isF := k.(float32); isF && lf != lf {
							continue
						}
						q := &Stmt{Kind: "select", Table: "t", Cols: []string{"*"}, Where: Leaf{cd.Name, "=", k}}
						if ok, alt := litAccepted(cd.Name, k); !ok || alt != "" {
							continue // a literal form the front end does not take (declared limitation), not this clause
						}
						wq := env.model.Apply(0, q).Rows
						gq := env.db.Auto(q.SQL())
						res.Traces++
						if gq.Fail != nil || gq.Aborted || gq.Err != "" {
							v = &c06Verdict{"index-read-back-failed/" + st.Kind, fmt.Sprintf("%s; then %s -> fail=%v aborted=%v err=%q", sql, shortSQL(q.SQL()), gq.Fail, gq.Aborted, gq.Err)}
						} else if gq.Rows.Canon() != wq.Canon() {
							v = &c06Verdict{"wrong-effect-through-index/" + st.Kind, fmt.Sprintf("%s; then %s\n  returns: %s\n  model  : %s", sql, shortSQL(q.SQL()), gq.Rows.Short(), wq.Short())}
						}
						if v != nil {
							break
						}
					}
					if v != nil {
						break
					}
				}
			}
		}
		if v != nil {
			viol(sc, rows, v, sql)
		} else {
			res.Outcome("ok:" + st.Kind)
		}
		env.Close()
	}
}

func init() {
	core.Register(&core.Driver{
		Prop: "C06",
		Budget: func(tier string) time.Duration {
			if tier == "thorough" {
				return 30 * time.Minute
			}
			return 170 * time.Second
		},
		Assume: []string{
			"supported subset: single-table SELECT/INSERT/UPDATE/DELETE with predicates `column op constant` joined by AND/OR (the planner does not accept `constant op column`), no NULL through SQL (README), no ORDER BY: answers are compared as multisets",
			"a literal form counts as accepted by the front end iff the parser returns, without error or panic, a constant of the intended type; forms outside (negative numbers in INSERT VALUES, exponent floats) are not used in SQL text, rows with such values are stored through the plan API; an accepted form that comes back altered is reported",
			"statistics are in their initial state (never updated); every cost-minimal plan under that state is executed (hook H3)",
			"indexed varchar values <= 700 bytes",
		},
		Run: c06Run,
		Replay: c06Replay,
	})
	_ = sort.Strings
}

// c06Replay re-executes one recorded statement on the recorded table contents: the statement is found by
// its SQL text among the statements the driver enumerates for that schema.
func c06Replay(raw json.RawMessage) (string, bool) {
	var rp struct {
		Schema string  `json:"schema"`
		Rows   [][]any `json:"rows"`
		Prep   *int    `json:"prepared"`
		SQL    string  `json:"sql"`
	}
	json.Unmarshal(raw, &rp)
	for _, sc := range c06Schemas() {
		if sc.Name != rp.Schema {
			continue
		}
		// JSON turned the values into float64/string: bring them back to the column types
		var rows [][]any
		for _, r := range rp.Rows {
			row := make([]any, len(r))
			for i, v := range r {
				switch sc.Def.Cols[i].Type {
				case TInt:
					row[i] = int32(v.(float64))
				case TFloat:
					row[i] = float32(v.(float64))
				default:
					row[i] = v
				}
			}
			rows = append(rows, row)
		}
		ct := c06Content{rows, -1}
		if rp.Prep != nil {
			ct.PrepIdx = *rp.Prep
		}
		leaves := c06Leaves(sc, func(v any) bool { return true })
		var few []Pred
		for i, l := range leaves {
			if i%5 == 0 {
				few = append(few, l)
			}
		}
		res := core.NewResult()
		var colNames []string
		for _, cd := range sc.Def.Cols {
			colNames = append(colNames, cd.Name)
		}
		selLists := [][]string{{"*"}, {colNames[0]}, {colNames[1]}, {colNames[0], colNames[1]}, {colNames[1], colNames[0]}}
		for _, p := range c06Preds(leaves, 3, few) {
			for _, sl := range selLists {
				sel := &Stmt{Kind: "select", Table: "t", Cols: sl, Where: p}
				if sel.SQL() != rp.SQL {
					continue
				}
				env := c06Open(sc, ct)
				defer env.Close()
				if v := env.runSelect(sel, res); v != nil {
					return fmt.Sprintf("schema %s rows %v\n%s: %s", sc.Name, ct.describe(sc), v.clause, v.detail), true
				}
				return fmt.Sprintf("schema %s rows %v\n%s -> agrees with the model under every plan", sc.Name, ct.describe(sc), rp.SQL), false
			}
		}
		// DML: run it and compare the table afterwards
		bad := false
		var out string
		ctx := &core.Ctx{Prop: "C06", Tier: "thorough", Shard: 0, Of: 1, Deadline: time.Now().Add(time.Minute), Res: res}
		c06DML(ctx, sc, ct, leaves, map[string][]any{sc.Def.Cols[0].Name: extraLits(sc.Def.Cols[0].Type), sc.Def.Cols[1].Name: extraLits(sc.Def.Cols[1].Type)},
			func(_ *c06Schema, _ c06Content, v *c06Verdict, stmt string) {
				if stmt == rp.SQL {
					bad = true
					out = v.clause + ": " + v.detail
				}
			})
		if bad {
			return out, true
		}
		return "statement " + rp.SQL + " on " + ct.describe(sc) + ": no disagreement with the model", false
	}
	return "unknown schema " + rp.Schema, false
}
