package props

// C12 — concurrent SQL calls are answered once, atomically and in a serial order.
// Engine C: 2-3 client goroutines call the real SamehadaDB.ExecuteSQL (1-2 calls each); the RequestManager
// loop, its per-request worker goroutines, the request/reply channels and queMutex are all under the
// controlled scheduler (go/chan constructs of lib/samehada are rewritten by the overlay generator).
// Every schedule up to the preemption bound is run. Oracle per schedule: every call returned exactly one
// result of its own statement's shape; the effect of every acknowledged update is there exactly once; the
// call/return history is linearizable w.r.t. a sequential model of the table, respecting real time
// (a call that returned before another was invoked comes first); no deadlock, no livelock.

import (
	"encoding/json"
	"fmt"
	"strings"
	"time"

	"github.com/ryogrid/SamehadaDB/lib/verifshim/vsched"

	"verif/core"
)

type c12Call struct {
	stmt     *Stmt
	inv, ret int // logical times
	done     bool
	err      string
	rows     Rows
	returned int // how many times a result was delivered (must be exactly 1)
}

type c12Scenario struct {
	Name    string
	Clients [][]*Stmt
	// Cap > 0: the scheduler models the request channel (real capacity 100) with this capacity - the size
	// parameter of the "reply is ready before its caller finished the wake-up send" deadlock class, which
	// needs capacity+2 clients. Free/Bound override the tier's bounds for these small scenarios.
	Cap, Free, Bound int
	NoPreempt        bool // preemption bound 0: only the choices at points where the running thread blocked or ended
	// Directed: one directed schedule with the REAL capacity (validation of what the small-capacity search
	// finds): client1 stops before its wake-up send, everybody else runs by priority, client1 goes last.
	Directed bool
	// DDL: the clients create different tables and use them (c12ddl.go)
	DDL bool
	// Wide: the table holds six 600-byte rows (its first page is full), the clients' statements make the
	// heap grow: two sessions race for the new last page
	Wide bool
}

func (sc *c12Scenario) seed() []*Stmt {
	if !sc.Wide {
		return c12Seed()
	}
	var out []*Stmt
	for k := 1; k <= 6; k++ {
		out = append(out, &Stmt{Kind: "insert", Table: "t", Cols: []string{"k", "v"}, Rows: [][]any{{int32(k), bigStr(fmt.Sprintf("s%d", k), 600)}}})
	}
	return out
}

func c12Seed() []*Stmt {
	ins := func(k int, v string) *Stmt {
		return &Stmt{Kind: "insert", Table: "t", Cols: []string{"k", "v"}, Rows: [][]any{{int32(k), v}}}
	}
	return []*Stmt{ins(1, "a1"), ins(2, "a2"), ins(3, "a3"), ins(4, "a4")}
}

func c12Scenarios(thorough bool) []*c12Scenario {
	k := func(v int) any { return int32(v) }
	rd := func(lo, hi int) *Stmt {
		return &Stmt{Kind: "select", Table: "t", Cols: []string{"k", "v"}, Where: And{Leaf{"k", ">=", k(lo)}, Leaf{"k", "<=", k(hi)}}}
	}
	up := func(tag string, lo, hi int) *Stmt {
		return &Stmt{Kind: "update", Table: "t", Set: []SetItem{{"v", tag}}, Where: And{Leaf{"k", ">=", k(lo)}, Leaf{"k", "<=", k(hi)}}}
	}
	out := []*c12Scenario{
		{Name: "update[1,3]||read[2,4]", Clients: [][]*Stmt{{up("u1", 1, 3)}, {rd(2, 4)}}},
		{Name: "update[1,3]||update[2,4]", Clients: [][]*Stmt{{up("u1", 1, 3)}, {up("u2", 2, 4)}}},
		{Name: "update;read||update", Clients: [][]*Stmt{{up("u1", 1, 2), rd(1, 4)}, {up("u2", 2, 3)}}},
		// a statement that fails (unknown table) next to good ones: each caller gets the answer to ITS statement
		{Name: "ddl/create(ta);insert;read||create(tb);insert;read", DDL: true},
		// a multi-row UPDATE fed by the sequential scan (it locks the row behind the one it hands out) next to a
		// writer of the following row and a reader of the updated rows
		{Name: "scan-update[<=2]||update[3]||read[1,2]", Clients: [][]*Stmt{
			{{Kind: "update", Table: "t", Set: []SetItem{{"v", "s1"}}, Where: ForceScan(Leaf{"k", "<=", k(2)})}},
			{up("u2", 3, 3)}, {rd(1, 2)}}},
		// a multi-row INSERT next to a reader of the table's tail: the reader sees none or all of the new rows
		{Name: "insert[11,12]||scan-read[>=10]", Clients: [][]*Stmt{
			{{Kind: "insert", Table: "t", Cols: []string{"k", "v"}, Rows: [][]any{{k(11), "n1"}, {k(12), "n2"}}}},
			{{Kind: "select", Table: "t", Cols: []string{"k", "v"}, Where: ForceScan(Leaf{"k", ">=", k(10)})}}}},
		{Name: "insert[11,12]||index-read[>=10]", Bound: 2, Free: 2, Clients: [][]*Stmt{
			{{Kind: "insert", Table: "t", Cols: []string{"k", "v"}, Rows: [][]any{{k(11), "n1"}, {k(12), "n2"}}}},
			{{Kind: "select", Table: "t", Cols: []string{"k", "v"}, Where: Leaf{"k", ">=", k(10)}}}}},
		// the heap grows: both inserts find the last page full
		{Name: "grow/wide-insert||wide-insert", Wide: true, Clients: [][]*Stmt{
			{{Kind: "insert", Table: "t", Cols: []string{"k", "v"}, Rows: [][]any{{k(11), bigStr("A", 600)}}}},
			{{Kind: "insert", Table: "t", Cols: []string{"k", "v"}, Rows: [][]any{{k(12), bigStr("B", 600)}}}}}},
		// a relocating update (the row moves to a new page) next to an insert and a reader of the moved row
		{Name: "grow/relocating-update||wide-insert||read", Wide: true, Clients: [][]*Stmt{
			{{Kind: "update", Table: "t", Set: []SetItem{{"v", bigStr("U", 1300)}}, Where: Leaf{"k", "=", k(2)}}},
			{{Kind: "insert", Table: "t", Cols: []string{"k", "v"}, Rows: [][]any{{k(12), bigStr("B", 600)}}}},
			{rd(2, 2)}}},
		{Name: "unknown-table||update||read", Clients: [][]*Stmt{{{Kind: "select", Table: "nosuch", Cols: []string{"k"}, Where: Leaf{"k", "=", k(1)}}}, {up("u1", 1, 2)}, {rd(1, 2)}}},
	}
	// request-channel flood: capacity+2 clients with one cheap read each
	flood := func(n int) [][]*Stmt {
		var cl [][]*Stmt
		for i := 0; i < n; i++ {
			cl = append(cl, []*Stmt{rd(1+i%4, 1+i%4)})
		}
		return cl
	}
	out = append([]*c12Scenario{
		{Name: "flood/real-capacity100/102clients/directed", Clients: flood(102), Directed: true},
		{Name: "flood/capacity1/3clients/no-preemption", Clients: flood(3), Cap: 1, Free: 3, NoPreempt: true},
		{Name: "flood/capacity2/4clients/no-preemption", Clients: flood(4), Cap: 2, Free: 4, NoPreempt: true},
		// one-row statements keep the schedule space small enough for two preemptions in the quick tier (an
		// abort result that arrives after the winner's result needs two)
		{Name: "update[2]||update[2]/2-preemptions", Clients: [][]*Stmt{{up("u1", 2, 2)}, {up("u2", 2, 2)}}, Bound: 2, Free: 1},
	}, out...)
	if thorough {
		out = append(out,
			&c12Scenario{Name: "flood/capacity1/3clients", Clients: flood(3), Cap: 1, Free: 3, Bound: 1},
			&c12Scenario{Name: "ddl/3clients/create;insert;read", DDL: true},
			&c12Scenario{Name: "update||update||read", Clients: [][]*Stmt{{up("u1", 1, 3)}, {up("u2", 2, 4)}, {rd(1, 4)}}},
			&c12Scenario{Name: "read;update||update;read", Clients: [][]*Stmt{{rd(1, 2), up("u1", 2, 3)}, {up("u2", 1, 2), rd(2, 3)}}})
	}
	return out
}

func (sc *c12Scenario) describe() string {
	var parts []string
	for i, cl := range sc.Clients {
		var ss []string
		for _, s := range cl {
			ss = append(ss, s.SQL())
		}
		parts = append(parts, fmt.Sprintf("client%d: %s", i, strings.Join(ss, " ")))
	}
	return strings.Join(parts, " || ")
}

func (sc *c12Scenario) build(bound int) *core.Scenario {
	if sc.DDL {
		return sc.buildDDL(bound)
	}
	free := c12Free(bound, len(sc.Clients))
	if sc.Bound > 0 {
		bound = sc.Bound
	}
	if sc.NoPreempt {
		bound = 0
	}
	if sc.Free > 0 {
		free = sc.Free
	}
	return &core.Scenario{
		Name:      "c12/" + sc.Name,
		Bound:     bound,
		FreeBound: free,
		Params: sc.Name,
		Setup: func() *core.Harness {
			vsched.CapOverride = nil
			if sc.Cap > 0 {
				vsched.CapOverride = func(c int) int {
					if c == 100 {
						return sc.Cap
					}
					return c
				}
			}
			dir := NewDir("c12")
			db, f := OpenDBKeepSpawns(dir+"/d", 128)
			if f != nil {
				panic(f.String())
			}
			td := sqlTable()
			db.MustAuto(td.CreateSQL())
			for _, s := range sc.seed() {
				db.MustAuto(s.SQL())
			}
			clock := 0
			calls := make([][]*c12Call, len(sc.Clients))
			h := &core.Harness{}
			for ci := range sc.Clients {
				ci := ci
				h.Names = append(h.Names, fmt.Sprintf("client%d", ci))
				for _, s := range sc.Clients[ci] {
					calls[ci] = append(calls[ci], &c12Call{stmt: s})
				}
				h.Threads = append(h.Threads, func() {
					for _, call := range calls[ci] {
						clock++
						call.inv = clock
						err, res := db.SDB.ExecuteSQL(call.stmt.SQL())
						clock++
						call.ret = clock
						call.done = true
						call.returned++
						if err != nil {
							call.err = err.Error()
						}
						call.rows = ifRows(res)
					}
				})
			}
			h.Check = func(x *core.ExecInfo) (*core.Violation, string) {
				mk := func(clause, detail string) *core.Violation {
					return &core.Violation{Property: "C12", Signature: "reqmgr/" + clause + "/" + sc.Name, Detail: sc.describe() + "\n" + detail}
				}
				if len(x.Panics) > 0 {
					return mk("panic@"+panicSite(x.Panics[0]), strings.Join(x.Panics, "\n")), "panic"
				}
				if x.Deadlock {
					return mk("call-blocks-forever", fmt.Sprintf("no thread can run although calls are outstanding: %v", x.Blocked)), "deadlock"
				}
				if x.Horizon {
					return mk("livelock", "the horizon of scheduling points was reached (statements retried for ever)"), "horizon"
				}
				var outcome []string
				for ci := range calls {
					for _, call := range calls[ci] {
						if !call.done || call.returned != 1 {
							return mk("call-not-answered-exactly-once", fmt.Sprintf("client%d %s: done=%v results delivered=%d", ci, call.stmt.SQL(), call.done, call.returned)), "not-answered"
						}
						if call.stmt.Table == "nosuch" {
							if call.err == "" || len(call.rows) != 0 {
								return mk("result-of-another-statement", fmt.Sprintf("client%d %s (unknown table) returned err=%q rows=%s", ci, call.stmt.SQL(), call.err, call.rows.Short())), "foreign-result"
							}
							continue
						}
						if call.err != "" {
							return mk("call-returned-error", fmt.Sprintf("client%d %s: %s", ci, call.stmt.SQL(), call.err)), "error"
						}
						if call.stmt.Kind != "select" && len(call.rows) != 0 {
							return mk("result-of-another-statement", fmt.Sprintf("client%d %s returned rows %s", ci, call.stmt.SQL(), call.rows.Short())), "foreign-result"
						}
						for _, r := range call.rows {
							if len(r) != 2 {
								return mk("result-of-another-statement", fmt.Sprintf("client%d %s returned %s", ci, call.stmt.SQL(), call.rows.Short())), "foreign-result"
							}
						}
						outcome = append(outcome, fmt.Sprintf("c%d[%d-%d]:%s", ci, call.inv, call.ret, strings.ReplaceAll(call.rows.Canon(), "\n", "/")))
					}
				}
				fin := db.Auto("SELECT k, v FROM t WHERE k >= -1000 OR k >= -1000;")
				if fin.Fail != nil || fin.Aborted || fin.Err != "" {
					return mk("final-read-failed", fmt.Sprintf("%+v", fin)), "final-read-failed"
				}
				final := fin.Rows.Canon()
				out := strings.Join(outcome, " ") + " => " + strings.ReplaceAll(final, "\n", "/")
				// strip the logical times from the outcome label (they vary with the schedule)
				label := c12Label(calls) + " => " + strings.ReplaceAll(final, "\n", "/")
				if d := indexBattery(db, "t", fin.Rows, nil); d != "" {
					return mk("index-disagrees-with-table-afterwards", d), "index-mismatch"
				}
				if !c12Linearizable(sc.seed(), calls, final) {
					return mk("not-linearizable", "results and final table are not those of any serial order of the calls that respects real time:\n  "+out), label
				}
				return nil, label
			}
			h.Cleanup = func() {
				vsched.CapOverride = nil
				db.Kill()
				removeAll(dir)
			}
			if sc.Directed {
				h.Chooser = c12DirectedChooser(len(sc.Clients))
			}
			return h
		},
	}
}

// c12DirectedChooser: client1 runs first, up to (not including) its wake-up send; from then on the
// highest-priority enabled thread runs - workers, then the request manager loop, then the other clients in
// ascending order - and client1 only when nothing else can run.
func c12DirectedChooser(nClients int) func(e *vsched.Exec, enabled []int, from *vsched.Thread) int {
	atSend := false
	return func(e *vsched.Exec, enabled []int, from *vsched.Thread) int {
		c1 := e.Threads[1]
		if !atSend {
			if c1.PendingKind() == vsched.KSend {
				atSend = true
			} else {
				for i, id := range enabled {
					if id == 1 {
						return i
					}
				}
			}
		}
		rank := func(id int) int {
			switch {
			case id == 1:
				return 1 << 30
			case id > nClients: // workers (spawned after the adopted request manager loop)
				return 0
			case id == nClients: // the request manager loop (adopted right after the harness threads)
				return 1
			}
			return 2 + id
		}
		best := 0
		for i, id := range enabled {
			if rank(id) < rank(enabled[best]) {
				best = i
			}
		}
		return best
	}
}

// c12Free: non-preemptive deviations allowed per schedule (the schedule count grows quickly with both bounds)
func c12Free(bound, clients int) int {
	if bound >= 2 {
		return 1
	}
	return 2
}

func c12Label(calls [][]*c12Call) string {
	var parts []string
	for ci := range calls {
		for _, call := range calls[ci] {
			if call.stmt.Table == "nosuch" {
				parts = append(parts, fmt.Sprintf("c%d:error", ci))
				continue
			}
			parts = append(parts, fmt.Sprintf("c%d:%s", ci, strings.ReplaceAll(call.rows.Canon(), "\n", "/")))
		}
	}
	return strings.Join(parts, " ")
}

func ifRows(res [][]interface{}) Rows {
	out := Rows{}
	for _, r := range res {
		row := make([]any, len(r))
		for i, v := range r {
			row[i] = v
		}
		out = append(out, row)
	}
	return out
}

// c12Linearizable: a total order of all calls that keeps program order, keeps real-time order
// (ret(X) < inv(Y) => X before Y), reproduces every read and yields the final table.
func c12Linearizable(seed []*Stmt, callsAll [][]*c12Call, final string) bool {
	// calls on the unknown table are answered with an error and take no part in the order
	var calls [][]*c12Call
	for _, cl := range callsAll {
		var keep []*c12Call
		for _, c := range cl {
			if c.stmt.Table != "nosuch" {
				keep = append(keep, c)
			}
		}
		calls = append(calls, keep)
	}
	pos := make([]int, len(calls))
	var all []*c12Call
	for _, cl := range calls {
		all = append(all, cl...)
	}
	placed := map[*c12Call]bool{}
	var rec func(m *Model) bool
	rec = func(m *Model) bool {
		done := true
		for i := range calls {
			if pos[i] >= len(calls[i]) {
				continue
			}
			done = false
			c := calls[i][pos[i]]
			// real time: every call that returned before c was invoked must already be placed
			ok := true
			for _, o := range all {
				if o != c && !placed[o] && o.ret < c.inv {
					ok = false
					break
				}
			}
			if !ok {
				continue
			}
			m2 := m.Clone()
			eff := m2.Apply(0, c.stmt)
			if c.stmt.Kind == "select" && eff.Rows.Canon() != c.rows.Canon() {
				continue
			}
			pos[i]++
			placed[c] = true
			if rec(m2) {
				return true
			}
			pos[i]--
			delete(placed, c)
		}
		if done {
			return m.Committed("t").Canon() == final
		}
		return false
	}
	m := NewModel()
	m.Create(sqlTable())
	for _, s := range seed {
		m.Apply(0, s)
	}
	return rec(m)
}

// c12RunDirected runs the one directed schedule of a Directed scenario (shard 0 only).
func c12RunDirected(c *core.Ctx, sc *c12Scenario) {
	if c.Shard != 0 {
		return
	}
	x, v, out, div := core.RunSchedule(sc.build(0), nil)
	c.Res.States++
	c.Res.Traces++
	c.Res.Transitions += int64(len(x.Trace))
	c.Res.Outcome("directed:" + out)
	c.Res.Bound["c12/"+sc.Name] = "one directed schedule with the real channel capacity (validation of the small-capacity search)"
	if div != "" {
		c.Res.Nondet = append(c.Res.Nondet, "c12/"+sc.Name+": "+div)
	}
	if v != nil {
		v.Replay = map[string]any{"params": sc.Name, "choices": x.Choices}
		c.Res.Violate(v)
	}
}

func init() {
	core.Register(&core.Driver{
		Prop: "C12",
		Budget: func(tier string) time.Duration {
			if tier == "thorough" {
				return 30 * time.Minute
			}
			return 300 * time.Second
		},
		Assume: []string{
			"the `go` statements and channel operations of lib/samehada/{request_manager,samehada}.go are rewritten (go/ast, at check time, from the current tree) to scheduler calls with the same semantics: unbuffered channels rendezvous, the request channel keeps its capacity of 100",
			"serial-order clause: reads and multi-row updates over overlapping key ranges of a 4-row table, unique written values; inserts only where the read predicate makes the comparison phantom-free in both orders (a reader of the tail next to one multi-row INSERT: it sees none or all of the new rows)",
			"aborted statements are retried by the RequestManager until they succeed, so the schedule space is cyclic: deviations from the default choice (lowest thread id) at points where the running thread blocked or finished are bounded by 2 per schedule (preferring the retrying worker over the worker it conflicts with for ever is an unfair schedule); preemptions are bounded separately; horizon 200000 points",
			"atomics are not scheduling points; RW-latches without writer preference; conflict-directed preemption points",
		},
		Run: func(c *core.Ctx) {
			bound := 1
			if c.Thorough() {
				bound = 2
			}
			for _, sc := range c12Scenarios(c.Thorough()) {
				if c.Expired() {
					return
				}
				if sc.Directed {
					c12RunDirected(c, sc)
					continue
				}
				core.ExploreSched(c, sc.build(bound))
			}
		},
		Replay: func(raw json.RawMessage) (string, bool) {
			var rp struct {
				Params  string `json:"params"`
				Choices []int  `json:"choices"`
			}
			json.Unmarshal(raw, &rp)
			for _, sc := range c12Scenarios(true) {
				if sc.Name == rp.Params {
					x, v, out, div := core.RunSchedule(sc.build(3), rp.Choices)
					desc := fmt.Sprintf("%s\nschedule of %d points -> %s %s", sc.describe(), len(x.Trace), out, div)
					if v != nil {
						return desc + "\n" + v.Detail, true
					}
					return desc, false
				}
			}
			return "scenario not found", false
		},
	})
}
