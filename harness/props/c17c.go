package props

// C17, concurrent part (Engine C): 2-3 real goroutines operate on one real index container (skip list
// index, unique skip list index, hash index) under the controlled scheduler, with keys placed around a
// node boundary so that split, node removal and the skip list's optimistic re-validation interleave.
// Every schedule up to the preemption bound. Oracle per schedule: no deadlock/panic; the results of the
// completed operations are those of some sequential order of the same operations on a sorted multimap
// (each operation takes effect atomically); entries no operation touches are found by every reader; the
// final contents equal the model; no frame stays pinned.

import (
	"encoding/json"
	"fmt"
	"sort"
	"strings"

	"github.com/ryogrid/SamehadaDB/lib/storage/page"
	"github.com/ryogrid/SamehadaDB/lib/storage/tuple"

	"verif/core"
)

type c17Op struct {
	Kind string // ins del scan range
	K    int    // key index
	R    int    // rid index
	K2   int    // range upper key index
}

func (o c17Op) String() string {
	switch o.Kind {
	case "ins", "del":
		return fmt.Sprintf("%s(k%d,r%d)", o.Kind, o.K, o.R)
	case "scan":
		return fmt.Sprintf("scan(k%d)", o.K)
	}
	return fmt.Sprintf("range(k%d..k%d)", o.K, o.K2)
}

type c17Scenario struct {
	Name    string
	P       c17Params
	Pre     []c17Op // applied single-threaded before the goroutines start
	Threads [][]c17Op
}

type c17MM struct{ ents map[string]bool }

func c17EntKey(k, r int) string { return fmt.Sprintf("%d/%d", k, r) }

func (m c17MM) clone() c17MM {
	n := c17MM{map[string]bool{}}
	for k := range m.ents {
		n.ents[k] = true
	}
	return n
}

// apply returns the result string an atomic execution of op gives on the multimap.
func (m c17MM) apply(o c17Op, nKeys int) string {
	switch o.Kind {
	case "ins":
		m.ents[c17EntKey(o.K, o.R)] = true
		return ""
	case "del":
		delete(m.ents, c17EntKey(o.K, o.R))
		return ""
	case "scan":
		var rs []string
		for e := range m.ents {
			var k, r int
			fmt.Sscanf(e, "%d/%d", &k, &r)
			if k == o.K {
				rs = append(rs, fmt.Sprint(r))
			}
		}
		sort.Strings(rs)
		return strings.Join(rs, ",")
	}
	var rs []string
	for e := range m.ents {
		var k, r int
		fmt.Sscanf(e, "%d/%d", &k, &r)
		if k >= o.K && k <= o.K2 {
			rs = append(rs, fmt.Sprintf("%d/%d", k, r))
		}
	}
	sort.Strings(rs)
	return strings.Join(rs, ",")
}

func (m c17MM) str() string {
	var es []string
	for e := range m.ents {
		es = append(es, e)
	}
	sort.Strings(es)
	return strings.Join(es, " ")
}

func c17Linearizable(start c17MM, progs [][]c17Op, results [][]string, final string, nKeys int) bool {
	pos := make([]int, len(progs))
	var rec func(m c17MM) bool
	rec = func(m c17MM) bool {
		done := true
		for t := range progs {
			if pos[t] < len(progs[t]) {
				done = false
				m2 := m.clone()
				if m2.apply(progs[t][pos[t]], nKeys) == results[t][pos[t]] {
					pos[t]++
					if rec(m2) {
						pos[t]--
						return true
					}
					pos[t]--
				}
			}
		}
		if done {
			return m.str() == final
		}
		return false
	}
	return rec(start)
}

func (sc *c17Scenario) describe() string {
	var parts []string
	for i, th := range sc.Threads {
		var ss []string
		for _, o := range th {
			ss = append(ss, o.String())
		}
		parts = append(parts, fmt.Sprintf("G%d: %s", i, strings.Join(ss, " ")))
	}
	return fmt.Sprintf("%s index, %s keys, seed %s; pre %v; %s", sc.P.Kind, sc.P.KeyT, sc.P.Seed, sc.Pre, strings.Join(parts, " || "))
}

func (sc *c17Scenario) build(bound int) *core.Scenario {
	return &core.Scenario{
		Name:   "c17c/" + sc.Name,
		Bound:  bound,
		Params: sc.Name,
		Setup: func() *core.Harness {
			in := newC17(sc.P)
			// keys are in sorted order: key index order = key order (needed by the model's range)
			rid := func(i int) page.RID { return in.rids[i] }
			tup := func(i int) *tuple.Tuple { return in.tup(in.keys[i]) }
			start := c17MM{map[string]bool{}}
			for _, o := range sc.Pre {
				in.idx.InsertEntry(tup(o.K), rid(o.R), nil)
				start.ents[c17EntKey(o.K, o.R)] = true
			}
			pinsBefore := c17Pins(in.bpm)
			ridIdx := func(r page.RID) int {
				for i, x := range in.rids {
					if x == r {
						return i
					}
				}
				return -1 // a filler entry
			}
			results := make([][]string, len(sc.Threads))
			h := &core.Harness{}
			for ti := range sc.Threads {
				ti := ti
				results[ti] = make([]string, len(sc.Threads[ti]))
				h.Names = append(h.Names, fmt.Sprintf("G%d", ti))
				h.Threads = append(h.Threads, func() {
					for oi, o := range sc.Threads[ti] {
						switch o.Kind {
						case "ins":
							in.idx.InsertEntry(tup(o.K), rid(o.R), nil)
						case "del":
							in.idx.DeleteEntry(tup(o.K), rid(o.R), nil)
						case "scan":
							var rs []string
							for _, r := range in.idx.ScanKey(tup(o.K), nil) {
								rs = append(rs, fmt.Sprint(ridIdx(r)))
							}
							sort.Strings(rs)
							results[ti][oi] = strings.Join(rs, ",")
						case "range":
							it := in.idx.GetRangeScanIterator(tup(o.K), tup(o.K2), nil)
							var rs []string
							fillers := 0
							for n := 0; n < 5000; n++ {
								done, _, _, r := it.Next()
								if done {
									break
								}
								if ri := ridIdx(*r); ri >= 0 {
									// the key index is recovered from the model side: entries are unique per (key,rid) here,
									// the rid identifies which keys could hold it; report rid only
									rs = append(rs, fmt.Sprint(ri))
								} else {
									fillers++
								}
							}
							sort.Strings(rs)
							results[ti][oi] = strings.Join(rs, ",") + fmt.Sprintf("+%dfillers", fillers)
						}
					}
				})
			}
			h.Check = func(x *core.ExecInfo) (*core.Violation, string) {
				mk := func(clause, detail string) *core.Violation {
					return &core.Violation{Property: "C17", Signature: "conc/" + sc.P.Kind + "/" + clause + "/" + sc.Name, Detail: sc.describe() + "\n" + detail}
				}
				if len(x.Panics) > 0 {
					return mk("panic@"+panicSite(x.Panics[0]), strings.Join(x.Panics, "\n")), "panic"
				}
				if x.Deadlock {
					return mk("deadlock", fmt.Sprintf("no thread can run: %v", x.Blocked)), "deadlock"
				}
				if x.Horizon {
					return mk("livelock", "horizon reached"), "horizon"
				}
				// final contents through lookups of every key
				fin := c17MM{map[string]bool{}}
				var finFail *Failure
				finFail = guard(func() {
					for ki := range in.keys {
						for _, r := range in.idx.ScanKey(tup(ki), nil) {
							fin.ents[c17EntKey(ki, ridIdx(r))] = true
						}
					}
				})
				if finFail != nil {
					return mk("final-read-failed", finFail.String()), "final-read-failed"
				}
				// range results carry rid indexes only; the model side must produce the same form
				conv := func(progs [][]c17Op) [][]string { return results }
				_ = conv
				out := fmt.Sprintf("%v => %s", results, fin.str())
				if !c17LinearizableForm(start, sc.Threads, results, fin.str(), in, sc) {
					return mk("not-atomic", "results and final contents are not those of any sequential order of the operations:\n  "+out), out
				}
				if after := c17Pins(in.bpm); newlyPinned(pinsBefore, after) {
					return mk("frame-left-pinned", fmt.Sprintf("pinned before %s, after %s", pinsBefore, after)), out
				}
				return nil, out
			}
			h.Cleanup = func() { in.Close() }
			return h
		},
	}
}

// c17LinearizableForm adapts the observed result strings (ranges report rid indexes + filler counts) to the
// model: fillers in range are constant (nobody touches them), so their count must be the full count.
func c17LinearizableForm(start c17MM, progs [][]c17Op, results [][]string, final string, in *c17Inst, sc *c17Scenario) bool {
	nFill := map[string]int{}
	fill := c17Filler(sc.P)
	if sc.P.Seed != "filled" {
		fill = nil
	}
	adj := make([][]string, len(results))
	for t := range progs {
		adj[t] = make([]string, len(progs[t]))
		for i, o := range progs[t] {
			adj[t][i] = results[t][i]
			if o.Kind == "range" {
				// expected number of fillers between the bounds
				key := fmt.Sprintf("%d-%d", o.K, o.K2)
				if _, ok := nFill[key]; !ok {
					n := 0
					for _, f := range fill {
						c1, _ := cmpVal(f, in.keys[o.K])
						c2, _ := cmpVal(f, in.keys[o.K2])
						if c1 >= 0 && c2 <= 0 {
							n++
						}
					}
					nFill[key] = n
				}
				want := fmt.Sprintf("+%dfillers", nFill[key])
				if !strings.HasSuffix(adj[t][i], want) {
					return false // an untouched background entry was not found (or found twice) by a scanner
				}
				adj[t][i] = strings.TrimSuffix(adj[t][i], want)
			}
		}
	}
	// model side: ranges report sorted rid indexes of in-range entries
	pos := make([]int, len(progs))
	apply := func(m c17MM, o c17Op) string {
		if o.Kind != "range" {
			return m.apply(o, 0)
		}
		var rs []string
		for e := range m.ents {
			var k, r int
			fmt.Sscanf(e, "%d/%d", &k, &r)
			if k >= o.K && k <= o.K2 {
				rs = append(rs, fmt.Sprint(r))
			}
		}
		sort.Strings(rs)
		return strings.Join(rs, ",")
	}
	var rec func(m c17MM) bool
	rec = func(m c17MM) bool {
		done := true
		for t := range progs {
			if pos[t] < len(progs[t]) {
				done = false
				m2 := m.clone()
				if apply(m2, progs[t][pos[t]]) == adj[t][pos[t]] {
					pos[t]++
					if rec(m2) {
						pos[t]--
						return true
					}
					pos[t]--
				}
			}
		}
		if done {
			return m.str() == final
		}
		return false
	}
	return rec(start)
}

func c17Scenarios(thorough bool) []*c17Scenario {
	ins := func(k, r int) c17Op { return c17Op{Kind: "ins", K: k, R: r} }
	del := func(k, r int) c17Op { return c17Op{Kind: "del", K: k, R: r} }
	scn := func(k int) c17Op { return c17Op{Kind: "scan", K: k} }
	rng := func(a, b int) c17Op { return c17Op{Kind: "range", K: a, K2: b} }
	var out []*c17Scenario
	for _, kind := range []string{"skip", "uniq", "hash"} {
		kt := "str"
		if kind == "hash" {
			kt = "int"
		}
		// string keys of ~600 bytes: a node holds a handful of entries, so the seed's fillers put the keys of
		// the domain right at a node boundary (the next insert splits, a delete empties a node)
		p := c17Params{Kind: kind, KeyT: kt, Seed: "filled", Levels: "cycle123"}
		pe := c17Params{Kind: kind, KeyT: kt, Seed: "empty", Levels: "cycle123"}
		add := func(name string, pp c17Params, pre []c17Op, th ...[]c17Op) {
			out = append(out, &c17Scenario{Name: kind + ":" + name, P: pp, Pre: pre, Threads: th})
		}
		// the two largest keys of the domain (for string keys they sort after the fillers, at the node boundary)
		a, b := len(c17Keys(p))-2, len(c17Keys(p))-1
		add("insert||insert(split)", p, nil, []c17Op{ins(a, 0)}, []c17Op{ins(b, 1)})
		add("insert||lookup", p, []c17Op{ins(a, 0)}, []c17Op{ins(b, 1)}, []c17Op{scn(a), scn(b)})
		add("delete||lookup", p, []c17Op{ins(a, 0), ins(b, 1)}, []c17Op{del(a, 0)}, []c17Op{scn(b), scn(a)})
		add("insert||delete", pe, []c17Op{ins(1, 0)}, []c17Op{ins(2, 1)}, []c17Op{del(1, 0)})
		if kind != "uniq" {
			// two entries of one key (neighbouring slots / one node) removed by two threads
			add("delete||delete(same key)", pe, []c17Op{ins(1, 0), ins(1, 1), ins(2, 0)}, []c17Op{del(1, 0), scn(1)}, []c17Op{del(1, 1), scn(2)})
		} else {
			add("delete||delete(same node)", pe, []c17Op{ins(1, 0), ins(2, 1), ins(3, 0)}, []c17Op{del(1, 0), scn(1)}, []c17Op{del(2, 1), scn(3)})
		}
		if kind != "hash" {
			add("insert||range", p, []c17Op{ins(a, 0)}, []c17Op{ins(b, 1)}, []c17Op{rng(0, b)})
			add("delete(node-removal)||range", p, []c17Op{ins(a, 0), ins(b, 1)}, []c17Op{del(b, 1), del(a, 0)}, []c17Op{rng(0, b)})
			add("delete||insert(same node)", p, []c17Op{ins(a, 0)}, []c17Op{del(a, 0)}, []c17Op{ins(b, 1)})
		}
		if thorough {
			add("insert||insert||lookup", p, nil, []c17Op{ins(a, 0)}, []c17Op{ins(b, 1)}, []c17Op{scn(a), scn(b)})
			if kind != "hash" {
				add("insert;delete||range;range", p, nil, []c17Op{ins(a, 0), del(a, 0)}, []c17Op{rng(0, b), rng(0, b)})
			}
		}
	}
	return out
}

func c17Concurrent(c *core.Ctx) {
	// an index operation takes only a handful of latches, so deeper preemption bounds are affordable
	bound := 4
	if c.Thorough() {
		bound = 6
	}
	scs := c17Scenarios(c.Thorough())
	c.Res.Bound["c17.concurrent_scenarios"] = len(scs)
	for _, sc := range scs {
		if c.Expired() {
			return
		}
		core.ExploreSched(c, sc.build(bound))
	}
}

func c17ConcReplay(raw json.RawMessage) (string, bool) {
	var rp struct {
		Params  string `json:"params"`
		Choices []int  `json:"choices"`
	}
	json.Unmarshal(raw, &rp)
	for _, sc := range c17Scenarios(true) {
		if sc.Name == rp.Params {
			x, v, out, div := core.RunSchedule(sc.build(3), rp.Choices)
			desc := fmt.Sprintf("%s\nschedule of %d points -> %s %s", sc.describe(), len(x.Trace), out, div)
			if v != nil {
				return desc + "\n" + v.Detail, true
			}
			return desc, false
		}
	}
	return "scenario not found", false
}
