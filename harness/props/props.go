// Package props holds one driver per property (C01..C20); each registers itself with core.
package props
