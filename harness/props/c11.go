package props

// C11 — join answers equal the naive evaluation whatever plan is chosen. Bounded-exhaustive inputs:
// two (and three) tables with all small contents over a 3-value join key domain (duplicates, missing keys,
// empty tables), every single equality ON condition, conjunctive WHERE filters over either table, several
// select lists, several statistics states (never updated / current / stale), and EVERY cost-minimal plan
// the optimizer can pick under that statistics state (hook H3: hash join in both orientations, index join,
// nested loop, with and without residual selection). Oracle: nested-loop evaluation in Go.

import (
	"github.com/ryogrid/SamehadaDB/lib/storage/tuple"
	"github.com/ryogrid/SamehadaDB/lib/storage/page"
	"github.com/ryogrid/SamehadaDB/lib/materialization"
	"github.com/ryogrid/SamehadaDB/lib/common"
	"bytes"
	"math"
	"encoding/json"
	"fmt"
	"strings"
	"time"

	"github.com/ryogrid/SamehadaDB/lib/container/hash"
	"github.com/ryogrid/SamehadaDB/lib/types"

	"verif/core"
)

type jTable struct {
	Def  TableDef
	Rows [][]any
}

type jLeaf struct {
	Tbl, Col, Op string
	Val          any
	// Flip: written as `constant op column` (with the mirrored operator); the meaning is the same
	Flip bool
}

func (l jLeaf) SQL() string {
	if l.Flip {
		m := map[string]string{"=": "=", "<": ">", ">=": "<=", ">": "<", "<=": ">=", "<>": "<>"}[l.Op]
		return fmt.Sprintf("%s %s %s.%s", Lit(l.Val), m, l.Tbl, l.Col)
	}
	return fmt.Sprintf("%s.%s %s %s", l.Tbl, l.Col, l.Op, Lit(l.Val))
}

type jQuery struct {
	Tables []string    // join order as written
	On     [][4]string // per join: ltbl, lcol, rtbl, rcol
	OnInWhere []bool   // the equality is written in WHERE instead of ON
	Where  []jLeaf
	Sel    [][2]string // tbl, col; nil = *
	Extra  [][4]string // further column = column conditions between the tables, written in WHERE
}

func (q *jQuery) SQL() string {
	var sel []string
	for _, s := range q.Sel {
		sel = append(sel, s[0]+"."+s[1])
	}
	if len(sel) == 0 {
		sel = []string{"*"}
	}
	from := q.Tables[0]
	var wh []string
	for i := 1; i < len(q.Tables); i++ {
		if len(q.On) < i {
			from += " JOIN " + q.Tables[i]
			continue
		}
		on := q.On[i-1]
		if q.OnInWhere[i-1] {
			from += " JOIN " + q.Tables[i]
			wh = append(wh, fmt.Sprintf("%s.%s = %s.%s", on[0], on[1], on[2], on[3]))
		} else {
			from += fmt.Sprintf(" JOIN %s ON %s.%s = %s.%s", q.Tables[i], on[0], on[1], on[2], on[3])
		}
	}
	for _, e := range q.Extra {
		wh = append(wh, fmt.Sprintf("%s.%s = %s.%s", e[0], e[1], e[2], e[3]))
	}
	for _, l := range q.Where {
		wh = append(wh, l.SQL())
	}
	s := "SELECT " + strings.Join(sel, ", ") + " FROM " + from
	if len(wh) > 0 {
		s += " WHERE " + strings.Join(wh, " AND ")
	}
	return s + ";"
}

// eval is the naive evaluation: all combinations of base rows that satisfy ON and WHERE, projected.
func (q *jQuery) eval(tabs map[string]*jTable) Rows {
	out := Rows{}
	var rec func(i int, cur map[string][]any)
	rec = func(i int, cur map[string][]any) {
		if i == len(q.Tables) {
			get := func(t, c string) any { return cur[t][tabs[t].Def.ColIdx(c)] }
			for _, on := range append(append([][4]string{}, q.On...), q.Extra...) {
				a, b := get(on[0], on[1]), get(on[2], on[3])
				if a == nil || b == nil {
					return
				}
				if cmp, ok := cmpVal(a, b); !ok || cmp != 0 {
					return
				}
			}
			for _, l := range q.Where {
				td := tabs[l.Tbl].Def
				if (Leaf{l.Col, l.Op, l.Val}).Eval(&td, cur[l.Tbl]) != True {
					return
				}
			}
			var row []any
			if q.Sel == nil {
				for _, t := range q.Tables {
					row = append(row, cur[t]...)
				}
			} else {
				for _, s := range q.Sel {
					row = append(row, get(s[0], s[1]))
				}
			}
			out = append(out, row)
			return
		}
		t := q.Tables[i]
		for _, r := range tabs[t].Rows {
			cur[t] = r
			rec(i+1, cur)
		}
	}
	rec(0, map[string][]any{})
	return out
}

func c11Defs() map[string]TableDef {
	return map[string]TableDef{
		"l": {Name: "l", Cols: []ColDef{{"k", TInt}, {"a", TInt}}},
		"r": {Name: "r", Cols: []ColDef{{"k2", TInt}, {"b", TInt}}},
		"m": {Name: "m", Cols: []ColDef{{"k3", TInt}, {"c", TInt}}},
	}
}

// contents of one table: key lists; the second column makes rows distinguishable (key*10 + position)
func c11Contents(thorough bool) [][]int {
	base := [][]int{{}, {1}, {2}, {1, 1}, {1, 2}, {2, 3}}
	if thorough {
		base = append(base, [][]int{{1, 2, 2}, {1, 1, 1}, {1, 2, 3}, {3, 3}}...)
	}
	return base
}

func c11Rows(keys []int) [][]any {
	var rows [][]any
	for i, k := range keys {
		rows = append(rows, []any{int32(k), int32(k*10 + i)})
	}
	return rows
}

type c11Stats struct {
	Name string
	// prep contents (keys) loaded and analysed before the real contents replace them; nil = no statistics
	Prep map[string][]int
	Cur  bool // statistics taken on the current contents
}

type c11World struct {
	db   *DB
	dir  string
	tabs map[string]*jTable
}

func c11Open(tables []string, contents map[string][]int, st c11Stats) *c11World {
	w := &c11World{tabs: map[string]*jTable{}}
	w.dir = NewDir("c11")
	db, f := OpenDB(w.dir+"/d", 256)
	if f != nil {
		panic(f.String())
	}
	w.db = db
	defs := c11Defs()
	load := func(t string, keys []int) {
		for _, r := range c11Rows(keys) {
			db.MustAuto((&Stmt{Kind: "insert", Table: t, Cols: []string{defs[t].Cols[0].Name, defs[t].Cols[1].Name}, Rows: [][]any{r}}).SQL())
		}
	}
	analyse := func() {
		tx := db.Begin()
		for _, tm := range db.Cat().GetAllTables() {
			if f := guard(func() { tm.GetStatistics().Update(tm, tx.T) }); f != nil {
				panic("statistics update: " + f.String())
			}
		}
		tx.Commit()
	}
	for _, t := range tables {
		td := defs[t]
		db.MustAuto(td.CreateSQL())
	}
	if st.Prep != nil {
		for _, t := range tables {
			load(t, st.Prep[t])
		}
		analyse()
		for _, t := range tables {
			db.MustAuto(fmt.Sprintf("DELETE FROM %s;", t))
		}
	}
	for _, t := range tables {
		load(t, contents[t])
		w.tabs[t] = &jTable{Def: defs[t], Rows: c11Rows(contents[t])}
	}
	if st.Cur {
		analyse()
	}
	return w
}

// ---- build sides that do not fit one temporary page ------------------------------------------------------
// The hash join materialises its build side in temporary pages; the contents above never fill one. These
// contents do: wide rows (nine 600-byte strings), many medium rows (150 x ~30 bytes) and many narrow rows.

func c11WideDefs(name string) map[string]TableDef {
	if name == "float-keys" {
		// FLOAT join keys: -0.0 and 0.0 are equal values with different bytes (the hash join hashes the bytes)
		return map[string]TableDef{
			"lw": {Name: "lw", Cols: []ColDef{{"k", TFloat}, {"s", TStr}}},
			"r":  {Name: "r", Cols: []ColDef{{"k2", TFloat}, {"b", TInt}}},
		}
	}
	return map[string]TableDef{
		"lw": {Name: "lw", Cols: []ColDef{{"k", TInt}, {"s", TStr}}},
		"r":  {Name: "r", Cols: []ColDef{{"k2", TInt}, {"b", TInt}}},
	}
}

// c11CollidingKeys: two different int keys with the same 32-bit hash value (the hash join's table is
// addressed by it), found with the repository's own hash function; about 84 000 candidates are needed.
var c11Collide [2]int32
var c11CollideDone bool

func c11CollidingKeys() [2]int32 {
	if c11CollideDone {
		return c11Collide
	}
	seen := map[uint32]int32{}
	for k := int32(1); k < 3000000; k++ {
		v := types.NewInteger(k)
		h := hash.HashValue(&v)
		if o, ok := seen[h]; ok {
			c11Collide = [2]int32{o, k}
			c11CollideDone = true
			return c11Collide
		}
		seen[h] = k
	}
	panic("no colliding int keys below 3000000")
}

func c11WideContents(name string) map[string][][]any {
	out := map[string][][]any{}
	if name == "float-keys" {
		nz := float32(math.Copysign(0, -1))
		out["lw"] = [][]any{{nz, "negative-zero"}, {float32(0), "zero"}, {float32(1.5), "a"}, {float32(-1.5), "b"}}
		out["r"] = [][]any{{float32(0), int32(1)}, {nz, int32(2)}, {float32(1.5), int32(30)}, {float32(2.5), int32(40)}}
		return out
	}
	if name == "colliding-hash" {
		ck := c11CollidingKeys()
		a, b := ck[0], ck[1]
		out["lw"] = [][]any{{a, "a1"}, {b, "b1"}, {a, "a2"}, {int32(5), "five"}}
		out["r"] = [][]any{{a, int32(1)}, {b, int32(2)}, {a, int32(3)}, {int32(7), int32(70)}}
		return out
	}
	rSmall := [][]any{{int32(0), int32(0)}, {int32(1), int32(10)}, {int32(2), int32(20)}, {int32(2), int32(21)}, {int32(7), int32(70)}}
	switch name {
	case "wide9":
		for i := 0; i < 9; i++ {
			out["lw"] = append(out["lw"], []any{int32(i % 3), bigStr(fmt.Sprintf("w%d", i), 600)})
		}
		out["r"] = rSmall
	case "medium150":
		for i := 0; i < 150; i++ {
			out["lw"] = append(out["lw"], []any{int32(i % 5), fmt.Sprintf("s%03d-%s", i, strings.Repeat("m", 5+i%23))})
		}
		out["r"] = rSmall
	case "narrow400":
		out["lw"] = [][]any{{int32(1), "one"}, {int32(2), "two"}, {int32(2), "zwei"}}
		for i := 0; i < 400; i++ {
			out["r"] = append(out["r"], []any{int32(i % 4), int32(i)})
		}
	}
	return out
}

var c11WideNames = []string{"wide9", "medium150", "narrow400", "colliding-hash", "float-keys"}

func c11OpenWide(name string, analysed bool) *c11World {
	w := &c11World{tabs: map[string]*jTable{}}
	w.dir = NewDir("c11w")
	db, f := OpenDB(w.dir+"/d", 512)
	if f != nil {
		panic(f.String())
	}
	w.db = db
	defs := c11WideDefs(name)
	cont := c11WideContents(name)
	for _, t := range []string{"lw", "r"} {
		td := defs[t]
		db.MustAuto(td.CreateSQL())
		rows := cont[t]
		for i := 0; i < len(rows); i += 50 {
			j := min(i+50, len(rows))
			db.MustAuto((&Stmt{Kind: "insert", Table: t, Cols: []string{td.Cols[0].Name, td.Cols[1].Name}, Rows: rows[i:j]}).SQL())
		}
		w.tabs[t] = &jTable{Def: td, Rows: rows}
	}
	if analysed {
		tx := db.Begin()
		for _, tm := range db.Cat().GetAllTables() {
			if f := guard(func() { tm.GetStatistics().Update(tm, tx.T) }); f != nil {
				panic("statistics update: " + f.String())
			}
		}
		tx.Commit()
	}
	return w
}

func c11WideQueries(name string) []*jQuery {
	var qs []*jQuery
	one := any(int32(1))
	if name == "float-keys" {
		one = float32(0)
	}
	for _, order := range [][]string{{"lw", "r"}, {"r", "lw"}} {
		on := [4]string{"lw", "k", "r", "k2"}
		if order[0] == "r" {
			on = [4]string{"r", "k2", "lw", "k"}
		}
		for _, sel := range [][][2]string{nil, {{"lw", "s"}, {"r", "b"}}, {{"r", "b"}, {"lw", "k"}}} {
			for _, wh := range [][]jLeaf{nil, {{"lw", "k", "=", one, false}}, {{"r", "b", ">=", int32(10), false}}} {
				qs = append(qs, &jQuery{Tables: order, On: [][4]string{on}, OnInWhere: []bool{false}, Where: wh, Sel: sel})
			}
		}
	}
	return qs
}

func (w *c11World) Close() {
	w.db.Kill()
	removeAll(w.dir)
}

func c11Queries(tables []string, thorough bool) []*jQuery {
	defs := c11Defs()
	var qs []*jQuery
	if len(tables) == 2 {
		l, r := tables[0], tables[1]
		lc, rc := defs[l].Cols, defs[r].Cols
		var ons [][4]string
		for _, a := range lc {
			for _, b := range rc {
				ons = append(ons, [4]string{l, a.Name, r, b.Name})
			}
		}
		wheres := [][]jLeaf{nil}
		var leaves []jLeaf
		for _, t := range tables {
			for _, c := range defs[t].Cols {
				for _, op := range []string{"=", "<", ">="} {
					for _, v := range []int32{1, 2, 10} {
						leaves = append(leaves, jLeaf{t, c.Name, op, v, false})
					}
				}
			}
		}
		for _, x := range leaves {
			wheres = append(wheres, []jLeaf{x})
		}
		step := 11
		if thorough {
			step = 1
		}
		n := 0
		for _, x := range leaves {
			for _, y := range leaves {
				n++
				if n%step == 0 {
					wheres = append(wheres, []jLeaf{x, y})
				}
			}
		}
		// the same filters written as `constant op column`
		for i, x := range leaves {
			if i%3 == 0 {
				x.Flip = true
				wheres = append(wheres, []jLeaf{x})
			}
		}
		sels := [][][2]string{nil, {{l, lc[0].Name}}, {{r, rc[1].Name}, {l, lc[0].Name}}, {{l, lc[1].Name}, {r, rc[1].Name}, {l, lc[0].Name}}, {{r, rc[0].Name}, {r, rc[1].Name}}}
		for oi, on := range ons {
			for wi, wh := range wheres {
				// all select lists for the plain key join, a rotating one otherwise
				use := sels[(oi+wi)%len(sels) : (oi+wi)%len(sels)+1]
				if oi == 0 && wi < 12 {
					use = sels
				}
				for _, s := range use {
					qs = append(qs, &jQuery{Tables: tables, On: [][4]string{on}, OnInWhere: []bool{false}, Where: wh, Sel: s})
				}
				if wi < 3 {
					// a second equality between the same two tables, written in WHERE (the ON clause takes one)
					l2, r2 := defs[on[0]].Cols[1].Name, defs[on[2]].Cols[1].Name
					if on[1] == l2 {
						l2 = defs[on[0]].Cols[0].Name
					}
					if on[3] == r2 {
						r2 = defs[on[2]].Cols[0].Name
					}
					qs = append(qs, &jQuery{Tables: tables, On: [][4]string{on}, OnInWhere: []bool{false}, Where: wh, Sel: sels[wi%len(sels)], Extra: [][4]string{{on[0], l2, on[2], r2}}})
				}
				if wi == 0 {
					// the same equality written in WHERE (cross join + filter)
					qs = append(qs, &jQuery{Tables: tables, On: [][4]string{on}, OnInWhere: []bool{true}, Sel: nil})
				}
				if oi == 0 && wi < 8 {
					// no join condition at all: cross join (nested loop) with the filter only
					qs = append(qs, &jQuery{Tables: tables, Where: wh, Sel: sels[wi%len(sels)]})
				}
			}
		}
		return qs
	}
	// three tables: chain l-r-m; the second equality in WHERE (README: an ON clause holds a single condition)
	for _, on2 := range [][4]string{{"r", "k2", "m", "k3"}, {"l", "k", "m", "k3"}, {"r", "b", "m", "c"}} {
		for _, wh := range [][]jLeaf{nil, {{"l", "k", ">=", int32(2), false}}, {{"m", "k3", "=", int32(1), false}, {"r", "b", ">=", int32(10), false}}} {
			for _, s := range [][][2]string{nil, {{"m", "c"}, {"l", "a"}, {"r", "b"}}} {
				qs = append(qs, &jQuery{Tables: tables, On: [][4]string{{"l", "k", "r", "k2"}, on2}, OnInWhere: []bool{false, true}, Where: wh, Sel: s})
			}
		}
	}
	return qs
}

func c11Run(c *core.Ctx) {
	res := c.Res
	contents := c11Contents(c.Thorough())
	stats := []c11Stats{
		{Name: "never-updated"},
		{Name: "current", Cur: true},
		{Name: "stale-from-larger", Prep: map[string][]int{"l": {1, 1, 1, 2, 2, 3}, "r": {1}, "m": {1, 2}}},
		{Name: "stale-lopsided", Prep: map[string][]int{"l": {1}, "r": {1, 1, 1, 2, 2, 3, 3}, "m": {}}},
	}
	if !c.Thorough() {
		stats = stats[:3]
	}
	res.Bound["table_contents"] = fmt.Sprintf("%d key multisets per table (0-%d rows, keys 1-3)", len(contents), 3)
	res.Bound["statistics_states"] = len(stats)
	item := 0
	wideName := ""
	check := func(w *c11World, q *jQuery, st c11Stats) {
		sql := q.SQL()
		want := q.eval(w.tabs)
		pfs, strs, f := w.db.PlanVariants(sql)
		if f != nil {
			res.Violate(&core.Violation{Property: "C11", Signature: "join/planning-failed/" + f.Kind + "@" + f.Where,
				Detail: sql + " -> " + f.String(), Replay: map[string]any{"sql": sql}})
			return
		}
		if len(pfs) == 0 {
			pfs, strs = []PlanChoices{nil}, []string{"(planner path)"}
		}
		res.Traces++
		for i, pf := range pfs {
			SetPlanChoices(pf)
			r := w.db.Auto(sql)
			SetPlanChoices(nil)
			res.Transitions++
			kind := c11PlanKind(strs[i])
			res.Op(kind)
			var clause, detail string
			switch {
			case r.Fail != nil:
				clause, detail = "statement-failed/"+kind+"/"+r.Fail.Kind+"@"+r.Fail.Where, r.Fail.String()
			case r.Err != "":
				clause, detail = "statement-refused", r.Err
			case r.Aborted:
				clause, detail = "statement-aborted-without-concurrency", ""
			case r.Rows.Canon() != want.Canon():
				clause = "wrong-answer/" + kind + "/" + c11Shape(q)
				if len(r.Rows) > 0 && len(want) > 0 && len(r.Rows[0]) != len(want[0]) {
					clause = "wrong-columns/" + kind + "/" + c11Shape(q)
				}
				detail = fmt.Sprintf("engine: %s\n  naive : %s", r.Rows.Short(), want.Short())
			}
			if clause == "" {
				ne := "empty"
				if len(want) > 0 {
					ne = "rows"
				}
				res.Outcome("ok:" + kind + ":" + ne)
				continue
			}
			res.Outcome("VIOLATION:" + clause)
			var cont []string
			for _, t := range q.Tables {
				cont = append(cont, fmt.Sprintf("%s=%v", t, w.tabs[t].Rows))
			}
			keys := map[string][]int{}
			for _, t := range q.Tables {
				for _, r := range w.tabs[t].Rows {
					if k, ok := r[0].(int32); ok {
						keys[t] = append(keys[t], int(k))
					}
				}
			}
			if wideName != "" {
				cont = []string{"contents " + wideName + fmt.Sprintf(" (lw: %d rows, r: %d rows)", len(w.tabs["lw"].Rows), len(w.tabs["r"].Rows))}
				keys = nil
				clause += "/large-build-side"
				if wideName == "float-keys" || wideName == "colliding-hash" {
					clause = strings.TrimSuffix(clause, "/large-build-side") + "/" + wideName
				}
			}
			res.Violate(&core.Violation{Property: "C11", Signature: "join/" + clause,
				Detail: fmt.Sprintf("%s\n  tables: %s; statistics: %s\n  plan  : %s\n  %s", sql, strings.Join(cont, " "), st.Name, strs[i], firstN(detail, 600)),
				Replay: map[string]any{"sql": sql, "table_keys": keys, "wide": wideName, "tables": q.Tables, "statistics": st.Name, "plan_choices": pf.String(), "plan": strs[i]}})
			if r.Fail != nil {
				return
			}
		}
	}
	// the temporary page of the hash join, for every tuple size: filled until it refuses
	if c.Shard == 0 {
		c11TmpPages(res)
	}
	// build sides larger than one temporary page
	res.Bound["large_build_sides"] = fmt.Sprintf("%v x statistics {never-updated, current} x %d queries, every plan", c11WideNames, len(c11WideQueries("")))
	for _, name := range c11WideNames {
		for _, analysed := range []bool{false, true} {
			item++
			if !c.Mine(item) {
				continue
			}
			if c.Expired() {
				return
			}
			w := c11OpenWide(name, analysed)
			res.States++
			stName := "never-updated"
			if analysed {
				stName = "current"
			}
			wideName = name
			for _, q := range c11WideQueries(name) {
				check(w, q, c11Stats{Name: stName, Cur: analysed})
			}
			wideName = ""
			w.Close()
		}
	}
	// two tables
	qs2 := c11Queries([]string{"l", "r"}, c.Thorough())
	res.Bound["two_table_queries"] = len(qs2)
	for _, st := range stats {
		for _, cl := range contents {
			for _, cr := range contents {
				item++
				if !c.Mine(item) {
					continue
				}
				if c.Expired() {
					return
				}
				w := c11Open([]string{"l", "r"}, map[string][]int{"l": cl, "r": cr}, st)
				res.States++
				for qi, q := range qs2 {
					// all queries on the smaller contents, a stride on the rest
					if len(cl)+len(cr) > 3 && (qi+item)%6 != 0 && !c.Thorough() {
						continue
					}
					check(w, q, st)
				}
				w.Close()
			}
		}
	}
	// three tables
	qs3 := c11Queries([]string{"l", "r", "m"}, c.Thorough())
	res.Bound["three_table_queries"] = len(qs3)
	small := [][]int{{}, {1}, {1, 2}, {1, 1}}
	for _, st := range stats {
		for _, cl := range small {
			for _, cr := range small {
				for _, cm := range small {
					item++
					if !c.Mine(item) {
						continue
					}
					if c.Expired() {
						return
					}
					w := c11Open([]string{"l", "r", "m"}, map[string][]int{"l": cl, "r": cr, "m": cm}, st)
					res.States++
					for _, q := range qs3 {
						check(w, q, st)
					}
					w.Close()
				}
			}
		}
	}
}

func c11PlanKindPlaceholder() {}

func c11PlanKind(s string) string {
	var ks []string
	for _, k := range []string{"HashJoin", "IndexJoin", "NestedLoopJoin"} {
		if n := strings.Count(s, k); n > 0 {
			ks = append(ks, k)
		}
	}
	if len(ks) == 0 {
		return "planner-path"
	}
	out := strings.Join(ks, "+")
	if strings.HasPrefix(s, "Selection") || strings.Contains(s, "(Selection") {
		out += "+selection"
	}
	return out
}

func c11Shape(q *jQuery) string {
	s := fmt.Sprintf("%dtables/where%d", len(q.Tables), len(q.Where))
	if len(q.Extra) > 0 {
		s += "/second-equality"
	}
	if q.Sel == nil {
		return s + "/star"
	}
	return s + fmt.Sprintf("/sel%d", len(q.Sel))
}

func init() {
	core.Register(&core.Driver{
		Prop: "C11",
		Budget: func(tier string) time.Duration {
			if tier == "thorough" {
				return 30 * time.Minute
			}
			return 420 * time.Second
		},
		Assume: []string{
			"supported join form (README): INNER JOIN with a single equality in each ON clause; further equalities (the second join of three tables, a second equality between two tables) are written in WHERE; otherwise WHERE is a conjunction of `table.column op constant` leaves",
			"table contents: all key multisets of 0-3 rows over 3 key values, plus three contents whose hash-join build side needs more than one temporary page (nine 600-byte rows, 150 rows of 25-50 bytes, 400 narrow rows)",
			"statistics states: never updated / taken on the current contents / taken on earlier, different contents (the harness calls TableStatistics.Update at those points, which is what the background updater does at times the caller cannot know)",
			"every cost-minimal plan under the statistics state is executed (hook H3); NULL join keys are not reachable through SQL",
		},
		Run: c11Run,
		Replay: c11Replay,
	})
}

var c11AllStats = []c11Stats{
	{Name: "never-updated"},
	{Name: "current", Cur: true},
	{Name: "stale-from-larger", Prep: map[string][]int{"l": {1, 1, 1, 2, 2, 3}, "r": {1}, "m": {1, 2}}},
	{Name: "stale-lopsided", Prep: map[string][]int{"l": {1}, "r": {1, 1, 1, 2, 2, 3, 3}, "m": {}}},
}

// c11Replay rebuilds the tables and statistics state, finds the query by its SQL text and executes it under
// the recorded plan choices (and, for comparison, under every other reachable plan).
func c11Replay(raw json.RawMessage) (string, bool) {
	var rp struct {
		SQL     string           `json:"sql"`
		Keys    map[string][]int `json:"table_keys"`
		Tables  []string         `json:"tables"`
		Stats   string           `json:"statistics"`
		Choices string           `json:"plan_choices"`
		Wide    string           `json:"wide"`
		TmpSize int              `json:"tmp_page_tuple_size"`
	}
	json.Unmarshal(raw, &rp)
	if rp.TmpSize > 0 {
		clause, detail, n := c11TmpPageSize(rp.TmpSize)
		return fmt.Sprintf("temporary page filled with tuples of %d bytes: %d accepted; %s %s", rp.TmpSize, n, clause, detail), clause != ""
	}
	if rp.Wide != "" {
		for _, q := range c11WideQueries(rp.Wide) {
			if q.SQL() != rp.SQL {
				continue
			}
			w := c11OpenWide(rp.Wide, rp.Stats == "current")
			defer w.Close()
			want := q.eval(w.tabs)
			SetPlanChoices(ParsePlanChoices(rp.Choices))
			r := w.db.Auto(rp.SQL)
			SetPlanChoices(nil)
			ok := r.Fail == nil && r.Rows.Canon() == want.Canon()
			return fmt.Sprintf("%s\ncontents %s statistics %s\nrecorded plan choices -> agrees with the naive evaluation: %v (engine %d rows, naive %d rows) %v", rp.SQL, rp.Wide, rp.Stats, ok, len(r.Rows), len(want), r.Fail), !ok
		}
		return "query not found among the enumerated ones: " + rp.SQL, false
	}
	var st c11Stats
	for _, s := range c11AllStats {
		if s.Name == rp.Stats {
			st = s
		}
	}
	for _, q := range c11Queries(rp.Tables, true) {
		if q.SQL() != rp.SQL {
			continue
		}
		for _, t := range rp.Tables {
			if rp.Keys[t] == nil {
				rp.Keys[t] = []int{}
			}
		}
		w := c11Open(rp.Tables, rp.Keys, st)
		defer w.Close()
		want := q.eval(w.tabs)
		var sb strings.Builder
		fmt.Fprintf(&sb, "%s\ntables %v statistics %s\nnaive evaluation: %s\n", rp.SQL, rp.Keys, rp.Stats, want.Short())
		bad := false
		pfs, strs, _ := w.db.PlanVariants(rp.SQL)
		pfs = append([]PlanChoices{ParsePlanChoices(rp.Choices)}, pfs...)
		strs = append([]string{"(recorded plan choices)"}, strs...)
		for i, pf := range pfs {
			SetPlanChoices(pf)
			r := w.db.Auto(rp.SQL)
			SetPlanChoices(nil)
			ok := r.Fail == nil && r.Rows.Canon() == want.Canon()
			fmt.Fprintf(&sb, "  %-5v %s -> %s %v\n", ok, strs[i], r.Rows.Short(), r.Fail)
			if !ok {
				bad = true
			}
		}
		return sb.String(), bad
	}
	return "query not found among the enumerated ones: " + rp.SQL, false
}

// c11TmpPages drives materialization.TmpTuplePage (where the hash join keeps its build side) directly: for
// every tuple size 1..600 a fresh page is filled until Insert refuses; after every accepted tuple all tuples
// stored so far are read back through the page's own Get and compared, and the page header must be intact.
// (Which row of a build side lands on the last bytes of a page depends on row width and count: at SQL level
// only a few widths are driven, here all of them.)
func c11TmpPages(res *core.Result) {
	res.Bound["tmp_tuple_page"] = "every tuple size 1..600, page filled until Insert refuses, full read-back after every insert"
	total := int64(0)
	for size := 1; size <= 600; size++ {
		clause, detail, n := c11TmpPageSize(size)
		total += n
		if clause != "" {
			res.Outcome("VIOLATION:tmp-page/" + clause)
			res.Violate(&core.Violation{Property: "C11", Signature: "join/tmp-page/" + clause, Detail: detail,
				Replay: map[string]any{"tmp_page_tuple_size": size}})
			return
		}
	}
	res.PerOp["tmp-page-inserts"] += total
	res.Outcome("tmp-page:ok")
}

func c11TmpPageSize(size int) (clause, detail string, n int64) {
	f := guard(func() {
		var arr [common.PageSize]byte
		pg := materialization.CastPageAsTmpTuplePage(page.New(types.PageID(77), false, &arr))
		pg.Init(types.PageID(77), common.PageSize)
		type stored struct {
			off  uint32
			data []byte
		}
		var all []stored
		for k := 0; k < 5000; k++ {
			data := make([]byte, size)
			for i := range data {
				data[i] = byte(1 + (k*7+i)%250)
			}
			var tt materialization.TmpTuple
			if !pg.Insert(tuple.NewTuple(nil, uint32(size), data), &tt) {
				break
			}
			n++
			all = append(all, stored{tt.GetOffset(), data})
			if pg.GetTablePageID() != types.PageID(77) {
				clause, detail = "header-overwritten", fmt.Sprintf("tuple size %d: after insert %d the page id field of the temporary page reads %d", size, k+1, pg.GetTablePageID())
				return
			}
			if fp := pg.GetFreeSpacePointer(); fp < 20 || fp != tt.GetOffset() {
				clause, detail = "free-space-pointer", fmt.Sprintf("tuple size %d: after insert %d the free-space pointer is %d, the tuple was stored at %d (the header ends at 20)", size, k+1, fp, tt.GetOffset())
				return
			}
			for j, st := range all {
				var back tuple.Tuple
				pg.Get(&back, st.off)
				if int(back.Size()) != size || !bytes.Equal(back.Data()[:back.Size()], st.data) {
					clause, detail = "stored-tuple-damaged", fmt.Sprintf("tuple size %d: after insert %d tuple %d (offset %d) reads back with size %d / other bytes", size, k+1, j+1, st.off, back.Size())
					return
				}
			}
		}
	})
	if f != nil {
		clause, detail = "panic@"+f.Where, fmt.Sprintf("tuple size %d: %s", size, f.String())
	}
	return
}
