package props

// C05 — committed transactions are serializable on the rows they touch.
// Part A (Engine A): every statement-granularity interleaving of two (thorough: three) read-modify-write
// transaction programs over overlapping rows; reads by point / range on the key through every access path,
// writes only to the non-key column of rows addressed by key, DELETE by key (no phantoms possible), unique
// written values.
// Oracle: brute force over the serial orders of the COMMITTED transactions - some order must reproduce
// every committed transaction's observed reads and the final table.

import (
	"encoding/json"
	"fmt"
	"hash/crc32"
	"strings"
	"time"

	"verif/core"
)

type c05Params struct {
	Txns    int `json:"transactions"`
	MaxStmt int `json:"max_statements_per_txn"`
}

// statements are generated per transaction so that written values are unique
func c05Stmt(txn, idx int) *Stmt {
	k := func(v int) any { return int32(v) }
	sel := func(p Pred) *Stmt { return &Stmt{Kind: "select", Table: "t", Cols: []string{"k", "v"}, Where: p} }
	upd := func(key int) *Stmt {
		return &Stmt{Kind: "update", Table: "t", Set: []SetItem{{"v", fmt.Sprintf("w%d.%d", txn, key)}}, Where: Leaf{"k", "=", k(key)}}
	}
	switch idx {
	case 0:
		return sel(Leaf{"k", "=", k(1)}) // index point read of row 1
	case 1:
		return sel(Leaf{"k", "=", k(2)})
	case 2:
		return sel(And{Leaf{"k", ">=", k(1)}, Leaf{"k", "<=", k(2)}}) // index range read of rows 1,2
	case 3:
		return sel(ForceScan(Leaf{"k", "=", k(1)})) // scan-path read of row 1 (locks every row it passes)
	case 4:
		return upd(1)
	case 5:
		return upd(2)
	case 6:
		// scan-path update of row 1: the sequential scan hands out row 1 and, in the same step, moves on to
		// (and locks) the row behind it
		return &Stmt{Kind: "update", Table: "t", Set: []SetItem{{"v", fmt.Sprintf("s%d.1", txn)}}, Where: ForceScan(Leaf{"k", "=", k(1)})}
	case 7:
		// DELETE by key: removes a row, cannot make a row newly match anybody's predicate. Until the deleter
		// ends the row is only delete-marked - a reader must wait/abort, not skip it
		return &Stmt{Kind: "delete", Table: "t", Where: Leaf{"k", "=", k(2)}}
	case 8:
		return sel(ForceScan(Leaf{"k", ">=", k(0)})) // scan-path read of every row
	}
	return nil
}

const c05NStmt = 9

type c05Obs struct {
	stmt *Stmt
	rows string
}

func c05Cfg(p c05Params) *WorldCfg {
	td := TableDef{Name: "t", Cols: []ColDef{{"k", TInt}, {"v", TStr}}}
	cfg := &WorldCfg{Prop: "C05", Driver: "c05", MemKB: 128, Defs: map[string]TableDef{"t": td}, SeedCreate: []string{"t"}, NoModelCompare: true}
	ins := func(k int, v string) *Stmt {
		return &Stmt{Kind: "insert", Table: "t", Cols: []string{"k", "v"}, Rows: [][]any{{int32(k), v}}}
	}
	cfg.SeedStmts = []*Stmt{ins(1, "a1"), ins(2, "a2"), ins(3, "a3")}
	for t := 1; t <= p.Txns; t++ {
		for i := 0; i < c05NStmt; i++ {
			cfg.Stmts = append(cfg.Stmts, c05Stmt(t, i))
		}
	}
	nStmt := map[int]int{}
	begun := map[int]bool{}
	obs := map[int][]c05Obs{}
	committed := map[int]bool{}
	ended := 0
	cfg.Before = func(w *World, op string) *core.Violation {
		var t, i int
		if n, _ := fmt.Sscanf(op, "sql:%d:%d", &t, &i); n == 2 {
			nStmt[t]++
		}
		if n, _ := fmt.Sscanf(op, "begin:%d", &t); n == 1 {
			begun[t] = true
		}
		if n, _ := fmt.Sscanf(op, "commit:%d", &t); n == 1 {
			committed[t] = true
		}
		return nil
	}
	cfg.OnStmt = func(w *World, txn int, s *Stmt, r StmtResult) {
		o := c05Obs{stmt: s}
		if s.Kind == "select" {
			o.rows = r.Rows.Canon()
		}
		obs[txn] = append(obs[txn], o)
	}
	cfg.Ops = func(w *World) []string {
		var ops []string
		for t := 1; t <= p.Txns; t++ {
			_, open := w.txns[t]
			if !begun[t] {
				if t == 1 || begun[t-1] {
					ops = append(ops, fmt.Sprintf("begin:%d", t))
				}
				continue
			}
			if !open {
				continue
			}
			if nStmt[t] < p.MaxStmt {
				for i := 0; i < c05NStmt; i++ {
					ops = append(ops, fmt.Sprintf("sql:%d:%d", t, (t-1)*c05NStmt+i))
				}
			}
			if nStmt[t] > 0 {
				ops = append(ops, fmt.Sprintf("commit:%d", t))
				if nStmt[t] == p.MaxStmt {
					ops = append(ops, fmt.Sprintf("abort:%d", t))
				}
			}
		}
		return ops
	}
	// the observations are part of the state: two histories that reach the same database state with different
	// reads behind them have different futures as far as the oracle is concerned (without this, a whole-table
	// read that wrongly skipped a row was merged with a one-row read that left the same locks behind)
	cfg.KeyExtra = func(w *World) string {
		var sb strings.Builder
		for t := 1; t <= p.Txns; t++ {
			for _, o := range obs[t] {
				fmt.Fprintf(&sb, "%d:%s=%08x;", t, shortSQL(o.stmt.SQL()), crc32.ChecksumIEEE([]byte(o.rows)))
			}
		}
		return fmt.Sprint(nStmt, begun, committed) + sb.String()
	}
	cfg.After = func(w *World, op string) *core.Violation {
		if len(w.txns) != 0 || !(strings.HasPrefix(op, "commit") || strings.HasPrefix(op, "abort") || strings.HasPrefix(op, "sql")) {
			return nil
		}
		_ = ended
		for t := 1; t <= p.Txns; t++ {
			if !begun[t] {
				return nil // only complete histories are judged
			}
		}
		final, v := w.Query("SELECT k, v FROM t WHERE k >= 0 OR k >= 0;")
		if v != nil {
			v.Ignore = true
			return v
		}
		var ids []int
		for t := 1; t <= p.Txns; t++ {
			if committed[t] {
				ids = append(ids, t)
			}
		}
		if ok, tried := c05Serializable(cfg.SeedStmts, td, ids, obs, final.Canon()); !ok {
			var desc []string
			for _, t := range ids {
				for _, o := range obs[t] {
					desc = append(desc, fmt.Sprintf("T%d: %s -> %q", t, o.stmt.SQL(), o.rows))
				}
			}
			return w.viol(fmt.Sprintf("not-serializable/%dcommitted", len(ids)), op, fmt.Sprintf("no serial order of the committed transactions %v explains their reads and the final table %q (tried %d orders)\n  %s", ids, final.Canon(), tried, strings.Join(desc, "\n  ")))
		}
		w.last = fmt.Sprintf("serializable:%dcommitted", len(ids))
		return nil
	}
	return cfg
}

// c05Serializable: is there a permutation of ids whose serial execution on the model reproduces every
// observed read and the final table?
func c05Serializable(seed []*Stmt, td TableDef, ids []int, obs map[int][]c05Obs, final string) (bool, int) {
	tried := 0
	var perm func(rest []int, order []int) bool
	perm = func(rest []int, order []int) bool {
		if len(rest) == 0 {
			tried++
			m := NewModel()
			m.Create(td)
			for _, s := range seed {
				m.Apply(0, s)
			}
			for _, t := range order {
				for _, o := range obs[t] {
					eff := m.Apply(0, o.stmt)
					if o.stmt.Kind == "select" && eff.Rows.Canon() != o.rows {
						return false
					}
				}
			}
			return m.Committed("t").Canon() == final
		}
		for i := range rest {
			nr := append(append([]int{}, rest[:i]...), rest[i+1:]...)
			if perm(nr, append(order, rest[i])) {
				return true
			}
		}
		return false
	}
	return perm(ids, nil), tried
}

func init() {
	core.Register(&core.Driver{
		Prop: "C05",
		Budget: func(tier string) time.Duration {
			if tier == "thorough" {
				return 30 * time.Minute
			}
			return 170 * time.Second
		},
		Assume: []string{
			"programs cannot create phantoms: reads by key (point, range, scan path, whole table), writes only to the non-key column of rows addressed by key, DELETE of one row by key, no insert, the key is never updated; written values are unique per (transaction, row)",
			"the oracle looks only at committed transactions; aborts decided by the engine are acceptable",
			"part A interleaves at statement granularity; part B (c05 concurrent) runs the statements as concurrently scheduled goroutines",
		},
		Run: func(c *core.Ctx) {
			p := c05Params{Txns: 2, MaxStmt: 2}
			depth := 8
			if c.Thorough() {
				p.MaxStmt = 3
				depth = 10
			}
			core.BFS(c, core.SeqConfig{Name: "c05/2txn", Params: p, Fresh: func() core.Instance { return NewWorld(c05Cfg(p)) }, MaxDepth: depth, SplitDepth: 3})
			if c.Thorough() {
				p3 := c05Params{Txns: 3, MaxStmt: 2}
				core.BFS(c, core.SeqConfig{Name: "c05/3txn", Params: p3, Fresh: func() core.Instance { return NewWorld(c05Cfg(p3)) }, MaxDepth: 12, SplitDepth: 3})
			}
			sqlConcurrent(c, "C05")
		},
		Replay: func(raw json.RawMessage) (string, bool) {
			var rp struct {
				History []string  `json:"history"`
				Params  c05Params `json:"params"`
			}
			json.Unmarshal(raw, &rp)
			if rp.History != nil {
				return core.ReplayHistory(func() core.Instance { return NewWorld(c05Cfg(rp.Params)) }, rp.History)
			}
			return sqlConcReplay(raw, "C05")
		},
	})
}
