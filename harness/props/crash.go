package props

// Engine B — every crash point of a history.
//
// A history (statement-granularity interleaving of 1-3 explicit transactions, commits, aborts,
// conflict aborts, forced checkpoints) is executed once on a real SamehadaDB whose disk manager is
// wrapped by the H1 recorder. The recorder logs the ordered I/O trace WritePage | WriteLog | GCLogFile
// plus harness markers. Crash images are built from the files as they were when recording started plus
// every prefix of the trace (optionally with the last write torn); each image is recovered by the REAL
// start-up path and compared with the set of admissible committed states.

import (
	"bytes"
	"encoding/binary"
	"fmt"
	"os"
	"path/filepath"
	"sort"
	"strings"

	"github.com/ryogrid/SamehadaDB/lib/samehada"
	"github.com/ryogrid/SamehadaDB/lib/storage/access"
	"github.com/ryogrid/SamehadaDB/lib/storage/disk"
	"github.com/ryogrid/SamehadaDB/lib/types"
)

// ---- recorder (hook H1) ---------------------------------------------------------------------------

type IOEvent struct {
	Kind byte // 'P' page write, 'L' log write, 'G' log truncation, 'M' marker
	Page int32
	Data []byte
	Mark string
	// Off: where a log write landed in the log file (observed through the file size before and after the
	// call: the disk manager's file position is its own business). -1 = appended at the end, as the crash
	// model assumes; >= 0 = the write left a gap of zeroes / landed inside the file.
	Off int64
}

type Recorder struct {
	disk.DiskManager
	Events []IOEvent
	On     bool
}

func (r *Recorder) WritePage(id types.PageID, data []byte) error {
	if r.On {
		r.Events = append(r.Events, IOEvent{Kind: 'P', Page: int32(id), Data: append([]byte{}, data...)})
	}
	return r.DiskManager.WritePage(id, data)
}

func (r *Recorder) WriteLog(data []byte) error {
	if !r.On || len(data) == 0 {
		return r.DiskManager.WriteLog(data)
	}
	before := r.DiskManager.GetLogFileSize()
	err := r.DiskManager.WriteLog(data)
	after := r.DiskManager.GetLogFileSize()
	off := int64(-1)
	if after-int64(len(data)) != before {
		off = after - int64(len(data)) // not a plain append
		if after == before {
			off = -2 // landed inside the file: position unknown to the recorder
		}
	}
	r.Events = append(r.Events, IOEvent{Kind: 'L', Data: append([]byte{}, data...), Off: off})
	return err
}

func (r *Recorder) GCLogFile() error {
	if r.On {
		r.Events = append(r.Events, IOEvent{Kind: 'G'})
	}
	return r.DiskManager.GCLogFile()
}

// TruncateLog is not part of the DiskManager interface; recovery finds it by type assertion.
func (r *Recorder) TruncateLog(size int64) error {
	if r.On {
		r.Events = append(r.Events, IOEvent{Kind: 'T', Page: int32(size)})
	}
	if t, ok := r.DiskManager.(interface{ TruncateLog(int64) error }); ok {
		return t.TruncateLog(size)
	}
	return nil
}

func (r *Recorder) Mark(m string) {
	if r.On {
		r.Events = append(r.Events, IOEvent{Kind: 'M', Mark: m})
	}
}

var curRecorder *Recorder
var recorderWanted bool

func init() {
	samehada.VerifDiskWrapper = func(d disk.DiskManager, name string) disk.DiskManager {
		if !recorderWanted {
			return d
		}
		curRecorder = &Recorder{DiskManager: d}
		return curRecorder
	}
}

// OpenRecorded opens a database with a recorder attached (recording off until rec.On is set).
func OpenRecorded(path string, memKB int, on bool) (*DB, *Recorder, *Failure) {
	recorderWanted = true
	curRecorder = nil
	defer func() { recorderWanted = false }()
	var db *DB
	var f *Failure
	// the recorder is created inside NewSamehadaDB; to record the recovery itself it must be on from
	// the first call
	if on {
		prev := samehada.VerifDiskWrapper
		samehada.VerifDiskWrapper = func(d disk.DiskManager, name string) disk.DiskManager {
			curRecorder = &Recorder{DiskManager: d, On: true}
			return curRecorder
		}
		db, f = OpenDB(path, memKB)
		samehada.VerifDiskWrapper = prev
	} else {
		db, f = OpenDB(path, memKB)
	}
	return db, curRecorder, f
}

// ---- images -----------------------------------------------------------------------------------------

type Image struct {
	DB  []byte
	Log []byte
}

func (im *Image) clone() *Image {
	return &Image{DB: append([]byte{}, im.DB...), Log: append([]byte{}, im.Log...)}
}

func readImage(path string) *Image {
	db, _ := os.ReadFile(path + ".db")
	lg, _ := os.ReadFile(path + ".log")
	return &Image{DB: db, Log: lg}
}

func (im *Image) write(path string) {
	os.WriteFile(path+".db", im.DB, 0o644)
	os.WriteFile(path+".log", im.Log, 0o644)
}

// apply performs one I/O event on the image; cut >= 0 tears the write after cut bytes.
func (im *Image) apply(ev *IOEvent, cut int) {
	switch ev.Kind {
	case 'P':
		off := int(ev.Page) * 4096
		data := ev.Data
		if cut >= 0 && cut < len(data) {
			data = data[:cut]
		}
		if need := off + len(data); need > len(im.DB) {
			if cut >= 0 {
				// a torn write that extends the file: the file ends where the write stopped
				im.DB = append(im.DB, make([]byte, need-len(im.DB))...)
			} else {
				im.DB = append(im.DB, make([]byte, need-len(im.DB))...)
			}
		}
		copy(im.DB[off:], data)
	case 'L':
		data := ev.Data
		if cut >= 0 && cut < len(data) {
			data = data[:cut]
		}
		if ev.Off > int64(len(im.Log)) {
			im.Log = append(im.Log, make([]byte, ev.Off-int64(len(im.Log)))...) // the gap the write left
		}
		im.Log = append(im.Log, data...)
	case 'G':
		im.Log = im.Log[:0]
	case 'T':
		if int(ev.Page) < len(im.Log) {
			im.Log = im.Log[:ev.Page]
		}
	}
}

// logCuts returns the torn variants of a log write: every record boundary, inside a header (4, 12,
// 19 bytes) and inside a body.
func logCuts(data []byte) []int {
	set := map[int]bool{}
	off := 0
	for off+4 <= len(data) {
		sz := int(binary.LittleEndian.Uint32(data[off:]))
		if sz < 20 || off+sz > len(data) {
			break
		}
		if off > 0 {
			set[off] = true
		}
		for _, h := range []int{4, 12, 19} {
			set[off+h] = true
		}
		if sz > 24 {
			set[off+20+(sz-20)/2] = true
			set[off+sz-1] = true
		}
		off += sz
	}
	var cuts []int
	for c := range set {
		if c > 0 && c < len(data) {
			cuts = append(cuts, c)
		}
	}
	sort.Ints(cuts)
	return cuts
}

func pageCuts() []int { return []int{512, 1024, 2048, 3584} }

// ---- histories --------------------------------------------------------------------------------------

type HOp struct {
	Txn  int    // 1..n; 0 for checkpoint
	Kind string // begin stmt commit abort checkpoint
	Stmt *Stmt
}

func (o HOp) String() string {
	switch o.Kind {
	case "stmt":
		return fmt.Sprintf("T%d: %s", o.Txn, shortSQL(o.Stmt.SQL()))
	case "checkpoint":
		return "CHECKPOINT"
	case "shutdown":
		return "SHUTDOWN (clean)"
	}
	return fmt.Sprintf("T%d: %s", o.Txn, o.Kind)
}

func shortSQL(s string) string {
	// long string literals are abbreviated: 'abab…(650 bytes)'
	var sb strings.Builder
	for {
		a := strings.IndexByte(s, '\'')
		if a < 0 {
			break
		}
		b := strings.IndexByte(s[a+1:], '\'')
		if b < 0 {
			break
		}
		lit := s[a+1 : a+1+b]
		sb.WriteString(s[:a+1])
		if len(lit) > 24 {
			fmt.Fprintf(&sb, "%s…(%d bytes)", lit[:8], len(lit))
		} else {
			sb.WriteString(lit)
		}
		sb.WriteString("'")
		s = s[a+b+2:]
	}
	sb.WriteString(s)
	return sb.String()
}

type CrashSeed struct {
	Name   string
	MemKB  int
	Tables []TableDef
	Stmts  []*Stmt
	Ckpt   bool // force a checkpoint at the end of the seed
	// Prologue: transactions run after the seed; then the process dies (no crash-point enumeration inside
	// the prologue: the files keep what the engine wrote), the database is restarted for real (recovery,
	// losers undone) and the history proper runs in the NEW session. Histories start from a recovered
	// database this way, not only from a freshly created one.
	Prologue []HOp
	// CleanIdle: instead of dying after the prologue the engine is shut down cleanly, opened and shut down
	// again without a single statement (an idle session), and opened for the history: what the log and the
	// LSN counter carry across clean restarts
	CleanIdle bool
}

// HistoryRun is the result of executing one history under the recorder.
type HistoryRun struct {
	Seed     *CrashSeed
	Ops      []HOp
	Executed []string // ops as executed (conflict aborts replace the rest of a transaction)
	Base     *Image   // files when recording started
	Events   []IOEvent
	tail     []IOEvent // writes after the history's last operation (harness heap walk evictions)
	Final    *Image // files after the run (conformance)
	// States[j] = committed model state after the first j commits (States[0] = seed state)
	States []*Model
	// Losers: images (row keys) ever written by transactions that did not commit, per table
	Fail      *Failure
	FailOp    string
	Kinds     map[string]bool // kinds of operations in the history (for signatures)
	MemKB     int
	dir       string
	TxnIDs     map[int]int32    // harness transaction number -> engine transaction id
	HeapPages  map[int32]bool   // pages of user-table heaps (walked through GetNextPageID at the end of the run)
	Writers    map[int]bool     // transactions that wrote something
	TxnWrites  map[int][]string // txn -> row images (table|rowkey) it wrote, for classification
	TxnTouched map[int][]string // txn -> committed row images it updated or deleted
	Committed  map[int]bool
	// Label: a fixed context label for the monitor (traces without statement marks, e.g. a recovery)
	Label string
}

func stmtKindTag(s *Stmt) string {
	if s.Kind == "update" {
		return "update"
	}
	return s.Kind
}

// RunHistory executes ops on a fresh database built from seed.
func RunHistory(seed *CrashSeed, ops []HOp) *HistoryRun {
	hr := &HistoryRun{Seed: seed, Ops: ops, Kinds: map[string]bool{}, MemKB: seed.MemKB, TxnIDs: map[int]int32{}, HeapPages: map[int32]bool{}, Writers: map[int]bool{}, TxnWrites: map[int][]string{}, TxnTouched: map[int][]string{}, Committed: map[int]bool{}}
	hr.dir = NewDir("crash")
	path := hr.dir + "/d"
	db, rec, f := OpenRecorded(path, seed.MemKB, false)
	if f != nil {
		panic("seed: " + f.String())
	}
	model := NewModel()
	for _, td := range seed.Tables {
		if f := db.CreateTable(td); f != nil {
			panic("seed: " + f.String())
		}
		model.Create(td)
	}
	for _, s := range seed.Stmts {
		db.MustAuto(s.SQL())
		model.Apply(0, s)
	}
	if seed.Ckpt {
		db.Checkpoint()
	}
	if len(seed.Prologue) > 0 {
		ptx := map[int]*Txn{}
		for _, op := range seed.Prologue {
			switch op.Kind {
			case "begin":
				ptx[op.Txn] = db.Begin()
			case "stmt":
				r := ptx[op.Txn].Exec(op.Stmt.SQL())
				if r.Fail != nil || r.Err != "" || r.Aborted {
					panic(fmt.Sprintf("prologue statement failed: %s: %+v", op.Stmt.SQL(), r))
				}
				model.Apply(op.Txn, op.Stmt)
			case "commit":
				if f := ptx[op.Txn].Commit(); f != nil {
					panic("prologue commit: " + f.String())
				}
				model.Commit(op.Txn)
				delete(ptx, op.Txn)
			}
		}
		for t := range ptx {
			model.Abort(t) // in flight when the process died: losers of the restart
		}
		if seed.CleanIdle {
			if f := db.Shutdown(); f != nil {
				panic("prologue shutdown: " + f.String())
			}
			idle, _, f2 := OpenRecorded(path, seed.MemKB, false)
			if f2 != nil {
				panic("prologue idle session: " + f2.String())
			}
			if f := idle.Shutdown(); f != nil {
				panic("prologue idle shutdown: " + f.String())
			}
		} else {
			db.Kill()
		}
		db, rec, f = OpenRecorded(path, seed.MemKB, false)
		if f != nil {
			hr.Fail, hr.FailOp = f, "restart after the prologue"
			hr.Base = readImage(path)
			hr.Final = hr.Base
			hr.States = []*Model{model.Clone()}
			return hr
		}
		// (no statement is issued here: the history proper must be the first thing the new session does -
		// its records get the first LSNs after the restart. Whether the recovered tables are what the
		// model says is judged with every crash point of the history, starting with the empty prefix.)
	}
	hr.Base = readImage(path)
	hr.States = []*Model{model.Clone()}
	rec.On = true
	txns := map[int]*Txn{}
	dead := map[int]bool{}
	step := func(name string, fn func() *Failure) bool {
		if f := fn(); f != nil {
			hr.Fail, hr.FailOp = f, name
			return false
		}
		return true
	}
	shutDown := false
	walkHeaps := func() {
		guard(func() {
			for _, tm := range db.Cat().GetAllTables() {
				if *tm.GetTableName() == "columns_catalog" {
					continue
				}
				pid := tm.Table().GetFirstPageID()
				for n := 0; pid.IsValid() && n < 256; n++ {
					hr.HeapPages[int32(pid)] = true
					pg := db.BPM().FetchPage(pid)
					if pg == nil {
						break
					}
					next := access.CastPageAsTablePage(pg).GetNextPageID()
					db.BPM().UnpinPage(pid, false)
					pid = next
				}
			}
		})
	}
	for _, op := range ops {
		if dead[op.Txn] && op.Kind != "shutdown" {
			continue
		}
		switch op.Kind {
		case "shutdown":
			// a clean Shutdown() as the last operation (no transaction open): crash points inside it see a log
			// that may already end with the graceful-shutdown record while pages are still being written.
			// (The harness' heap walk comes first: afterwards the database is closed; what it evicts is part of
			// the history, like the reads of any user.)
			walkHeaps()
			hr.Kinds["shutdown"] = true
			rec.Mark("shutdown-begin")
			if !step("shutdown", db.Shutdown) {
				goto done
			}
			rec.Mark("shutdown-end")
			shutDown = true
			hr.Executed = append(hr.Executed, op.String())
		case "begin":
			txns[op.Txn] = db.Begin()
			hr.TxnIDs[op.Txn] = int32(txns[op.Txn].T.GetTransactionID())
			hr.Executed = append(hr.Executed, op.String())
		case "checkpoint":
			hr.Kinds["checkpoint"] = true
			rec.Mark("ckpt-begin")
			if !step("checkpoint", db.Checkpoint) {
				goto done
			}
			rec.Mark("ckpt-end")
			hr.Executed = append(hr.Executed, op.String())
		case "stmt":
			t := txns[op.Txn]
			rec.Mark(fmt.Sprintf("stmt-begin %d", op.Txn))
			r := t.Exec(op.Stmt.SQL())
			rec.Mark(fmt.Sprintf("stmt-end %d", op.Txn))
			if r.Fail != nil {
				hr.Fail, hr.FailOp = r.Fail, op.String()
				goto done
			}
			if r.Err != "" {
				panic("history statement refused: " + op.Stmt.SQL() + ": " + r.Err)
			}
			if r.Aborted {
				hr.Kinds["conflict-abort"] = true
				hr.Executed = append(hr.Executed, op.String()+"  -> aborted by the engine")
				rec.Mark(fmt.Sprintf("abort-call %d", op.Txn))
				if !step("abort", t.Abort) {
					goto done
				}
				rec.Mark(fmt.Sprintf("abort-return %d", op.Txn))
				model.Abort(op.Txn)
				dead[op.Txn] = true
				continue
			}
			hr.Kinds[stmtKindTag(op.Stmt)] = true
			if len(t.T.GetWriteSet()) > 0 {
				hr.Writers[op.Txn] = true
			}
			before := pendingImages(model, op.Txn)
			eff := model.Apply(op.Txn, op.Stmt)
			if eff.Conflict {
				hr.Fail, hr.FailOp = &Failure{Kind: "dirty-write", Msg: "statement wrote a row carrying another transaction's uncommitted change", Where: "history"}, op.String()
				goto done
			}
			for img := range pendingImages(model, op.Txn) {
				if !before[img] {
					hr.TxnWrites[op.Txn] = append(hr.TxnWrites[op.Txn], img)
				}
			}
			for img := range ownedCommitted(model, op.Txn) {
				hr.TxnTouched[op.Txn] = append(hr.TxnTouched[op.Txn], img)
			}
			hr.Executed = append(hr.Executed, op.String())
		case "commit":
			t := txns[op.Txn]
			rec.Mark(fmt.Sprintf("commit-call %d", op.Txn))
			if !step("commit", t.Commit) {
				goto done
			}
			rec.Mark(fmt.Sprintf("commit-return %d", op.Txn))
			model.Commit(op.Txn)
			hr.Committed[op.Txn] = true
			hr.States = append(hr.States, model.Clone())
			dead[op.Txn] = true
			hr.Executed = append(hr.Executed, op.String())
		case "abort":
			hr.Kinds["abort"] = true
			t := txns[op.Txn]
			rec.Mark(fmt.Sprintf("abort-call %d", op.Txn))
			if !step("abort", t.Abort) {
				goto done
			}
			rec.Mark(fmt.Sprintf("abort-return %d", op.Txn))
			model.Abort(op.Txn)
			dead[op.Txn] = true
			hr.Executed = append(hr.Executed, op.String())
		}
	}
done:
	// the heap walk below may evict dirty pages (small pools): those writes are not part of the history
	// (no crash point is placed in them) but they are part of what Conforms compares
	nDone := len(rec.Events)
	if !shutDown {
		walkHeaps()
	}
	rec.On = false
	hr.Events = rec.Events[:nDone:nDone]
	hr.tail = rec.Events[nDone:]
	if !shutDown {
		db.Kill()
	}
	hr.Final = readImage(path)
	return hr
}

func pendingImages(m *Model, txn int) map[string]bool {
	out := map[string]bool{}
	for name, t := range m.Tables {
		for _, r := range t.Rows {
			if r.Owner == txn && r.Pend != nil {
				out[name+"|"+rowKey(r.Pend)] = true
			}
		}
	}
	return out
}

func ownedCommitted(m *Model, txn int) map[string]bool {
	out := map[string]bool{}
	for name, t := range m.Tables {
		for _, r := range t.Rows {
			if r.Owner == txn && r.Com != nil {
				out[name+"|"+rowKey(r.Com)] = true
			}
		}
	}
	return out
}

func (hr *HistoryRun) Cleanup() { os.RemoveAll(hr.dir) }

// Conforms re-applies the whole trace to the base image and compares with the files the real disk
// manager left behind: this binds "crash image" to the code's own I/O semantics.
func (hr *HistoryRun) Conforms() bool {
	im := hr.Base.clone()
	for i := range hr.Events {
		im.apply(&hr.Events[i], -1)
	}
	for i := range hr.tail {
		im.apply(&hr.tail[i], -1)
	}
	return bytes.Equal(im.DB, hr.Final.DB) && bytes.Equal(im.Log, hr.Final.Log)
}

// CrashPoint identifies one image: the first N events applied (the last of them torn at Cut if Cut >= 0
// and Torn < 0), plus - for flushes whose order is an accident of map iteration - the events listed in
// Extra (page writes of the same flush run, in any combination), plus optionally event Torn cut at Cut.
type CrashPoint struct {
	N     int
	Cut   int
	Extra []int
	Torn  int // event index of a torn page write of the run (-1: none / the prefix's last event)
}

// Points enumerates the crash points of the trace: after every I/O event (and before the first), plus
// the torn variants of each I/O event. The buffer pool flushes "all dirty pages" in Go map iteration
// order, so within such a run of consecutive page writes EVERY subset of the pages (not only the prefixes
// of the order this execution happened to use) is a possible on-disk state and is enumerated.
func (hr *HistoryRun) Points(tornLog, tornPage bool) []CrashPoint {
	pts := []CrashPoint{{N: 0, Cut: -1, Torn: -1}}
	n := len(hr.Events)
	for i := 0; i < n; i++ {
		ev := &hr.Events[i]
		if ev.Kind == 'M' {
			continue
		}
		if ev.Kind == 'P' {
			j := i
			for j < n && hr.Events[j].Kind == 'P' {
				j++
			}
			if k := j - i; k >= 2 && k <= 5 {
				// all non-empty subsets of the run (the empty subset is the previous crash point)
				for mask := 1; mask < 1<<k; mask++ {
					var sub []int
					for b := 0; b < k; b++ {
						if mask&(1<<b) != 0 {
							sub = append(sub, i+b)
						}
					}
					pts = append(pts, CrashPoint{N: i, Cut: -1, Extra: sub, Torn: -1})
				}
				if tornPage {
					for mask := 0; mask < 1<<k; mask++ {
						var sub []int
						for b := 0; b < k; b++ {
							if mask&(1<<b) != 0 {
								sub = append(sub, i+b)
							}
						}
						for b := 0; b < k; b++ {
							if mask&(1<<b) == 0 {
								for _, c := range []int{512, 2048} {
									pts = append(pts, CrashPoint{N: i, Cut: c, Extra: sub, Torn: i + b})
								}
							}
						}
					}
				}
				i = j - 1
				continue
			}
		}
		if ev.Kind == 'L' && tornLog {
			for _, c := range logCuts(ev.Data) {
				pts = append(pts, CrashPoint{N: i + 1, Cut: c, Torn: -1})
			}
		}
		if ev.Kind == 'P' && tornPage {
			for _, c := range pageCuts() {
				pts = append(pts, CrashPoint{N: i + 1, Cut: c, Torn: -1})
			}
		}
		pts = append(pts, CrashPoint{N: i + 1, Cut: -1, Torn: -1})
	}
	return pts
}

func (hr *HistoryRun) ImageAt(p CrashPoint) *Image {
	im := hr.Base.clone()
	for i := 0; i < p.N; i++ {
		cut := -1
		if i == p.N-1 && p.Torn < 0 {
			cut = p.Cut
		}
		if hr.Events[i].Kind != 'M' {
			im.apply(&hr.Events[i], cut)
		}
	}
	for _, e := range p.Extra {
		im.apply(&hr.Events[e], -1)
	}
	if p.Torn >= 0 {
		im.apply(&hr.Events[p.Torn], p.Cut)
	}
	return im
}

// Describe renders a crash point independently of the accidental order inside a flush run.
func (hr *HistoryRun) Describe(p CrashPoint) string {
	var sb strings.Builder
	fmt.Fprintf(&sb, "%d of %d events applied", p.N, len(hr.Events))
	if len(p.Extra) > 0 || p.Torn >= 0 {
		var pages []int
		for _, e := range p.Extra {
			pages = append(pages, int(hr.Events[e].Page))
		}
		sort.Ints(pages)
		fmt.Fprintf(&sb, " + pages %v of the following flush", pages)
		if p.Torn >= 0 {
			fmt.Fprintf(&sb, " + page %d torn at %d", hr.Events[p.Torn].Page, p.Cut)
		}
	} else if p.Cut >= 0 {
		fmt.Fprintf(&sb, ", the last one torn at %d", p.Cut)
	}
	return sb.String()
}

// Counts returns (#commit-return, #commit-call) markers before crash point p. A torn last event counts
// as not completed, which does not matter for markers (they are separate events).
func (hr *HistoryRun) Counts(p CrashPoint) (cRet, cCall int) {
	for i := 0; i < p.N; i++ {
		if hr.Events[i].Kind == 'M' {
			if strings.HasPrefix(hr.Events[i].Mark, "commit-return") {
				cRet++
			} else if strings.HasPrefix(hr.Events[i].Mark, "commit-call") {
				cCall++
			}
		}
	}
	return
}

// ctxAt returns the marker context in force after the first n events.
func (hr *HistoryRun) ctxAt(n int) string {
	ctx := "before-first-statement"
	for i := 0; i < n && i < len(hr.Events); i++ {
		if hr.Events[i].Kind == 'M' {
			switch strings.Fields(hr.Events[i].Mark)[0] {
			case "stmt-begin":
				ctx = "inside-statement"
			case "stmt-end":
				ctx = "between-statements"
			case "commit-call":
				ctx = "inside-commit"
			case "commit-return":
				ctx = "after-commit-return"
			case "abort-call":
				ctx = "inside-abort"
			case "abort-return":
				ctx = "after-abort-return"
			case "ckpt-begin":
				ctx = "inside-checkpoint"
			case "ckpt-end":
				ctx = "after-checkpoint"
			case "shutdown-begin":
				ctx = "inside-shutdown"
			case "shutdown-end":
				ctx = "after-shutdown"
			}
		}
	}
	return ctx
}

// Class describes where the crash point lies (for signatures): between which markers, what the last
// event was, and how it was torn.
func (hr *HistoryRun) Class(p CrashPoint) string {
	ctx := "before-first-statement"
	for i := 0; i < p.N; i++ {
		if hr.Events[i].Kind == 'M' {
			m := strings.Fields(hr.Events[i].Mark)[0]
			switch m {
			case "stmt-begin":
				ctx = "inside-statement"
			case "stmt-end":
				ctx = "between-statements"
			case "commit-call":
				ctx = "inside-commit"
			case "commit-return":
				ctx = "after-commit-return"
			case "abort-call":
				ctx = "inside-abort"
			case "abort-return":
				ctx = "after-abort-return"
			case "ckpt-begin":
				ctx = "inside-checkpoint"
			case "ckpt-end":
				ctx = "after-checkpoint"
			case "shutdown-begin":
				ctx = "inside-shutdown"
			case "shutdown-end":
				ctx = "after-shutdown"
			}
		}
	}
	last := "none"
	if len(p.Extra) > 0 || p.Torn >= 0 {
		last = "page-write"
		for i := p.N; i < len(hr.Events) && i <= p.N; i++ {
		}
	} else if p.N > 0 {
		for i := p.N - 1; i >= 0; i-- {
			if hr.Events[i].Kind != 'M' {
				last = map[byte]string{'P': "page-write", 'L': "log-write", 'G': "log-truncate", 'T': "log-tail-cut"}[hr.Events[i].Kind]
				break
			}
		}
	}
	torn := "whole"
	if p.Cut >= 0 {
		torn = "torn"
	}
	if len(p.Extra) > 0 || p.Torn >= 0 {
		// the run follows a marker at index < N: the context computed above is that of the run
		ctx = hr.ctxAt(p.N + 1)
	}
	return ctx + "," + last + "," + torn
}

func (hr *HistoryRun) KindList() string {
	var ks []string
	for k := range hr.Kinds {
		ks = append(ks, k)
	}
	sort.Strings(ks)
	return strings.Join(ks, "+")
}

// ---- recovery of one image ----------------------------------------------------------------------------

type Recovered struct {
	AfterOpen *Image // files right after NewSamehadaDB returned (only when the recovery was recorded)
	Fail    *Failure        // restart did not return normally
	Scan    map[string]Rows // table -> full scan
	Index   map[string]Rows // table -> rows through an index range scan over the whole key domain
	ScanErr string
	Probe   string // "" ok, else what failed
	Rec     *Recorder
	After   *Image // files after recovery + observation (for idempotence checks)
}

type ProbeSpec struct {
	Insert *Stmt
	Select *Stmt
	// IndexSel: for each table a select whose predicate is an index range over the whole key domain
	IndexSel map[string]*Stmt
}

var recoverSeq int

// Recover writes the image to fresh files, runs the real start-up path on them and observes all tables.
func Recover(im *Image, tables []TableDef, memKB int, probe *ProbeSpec, record bool) *Recovered {
	recoverSeq++
	dir := filepath.Join(coreScratch(), fmt.Sprintf("rec-%d", recoverSeq))
	os.MkdirAll(dir, 0o755)
	defer os.RemoveAll(dir)
	path := dir + "/d"
	im.write(path)
	out := &Recovered{Scan: map[string]Rows{}, Index: map[string]Rows{}}
	var db *DB
	var f *Failure
	if record {
		db, out.Rec, f = OpenRecorded(path, memKB, true)
		if out.Rec != nil {
			out.Rec.On = false
			out.AfterOpen = readImage(path) // conformance of the recorded recovery trace
		}
	} else {
		db, f = OpenDB(path, memKB)
	}
	if f != nil {
		out.Fail = f
		return out
	}
	defer db.Kill()
	for _, td := range tables {
		r := db.Auto(fmt.Sprintf("SELECT * FROM %s;", td.Name))
		if r.Fail != nil {
			out.Fail = &Failure{Kind: r.Fail.Kind, Msg: "first scan after restart: " + r.Fail.Msg, Where: r.Fail.Where}
			return out
		}
		if r.Err != "" || r.Aborted {
			out.ScanErr = fmt.Sprintf("scan of %s after restart: err=%q aborted=%v", td.Name, r.Err, r.Aborted)
			return out
		}
		out.Scan[td.Name] = r.Rows
		if probe != nil && probe.IndexSel[td.Name] != nil {
			r := db.Auto(probe.IndexSel[td.Name].SQL())
			if r.Fail != nil {
				out.Fail = &Failure{Kind: r.Fail.Kind, Msg: "index scan after restart: " + r.Fail.Msg, Where: r.Fail.Where}
				return out
			}
			if r.Err != "" || r.Aborted {
				out.ScanErr = fmt.Sprintf("index scan of %s after restart: err=%q aborted=%v", td.Name, r.Err, r.Aborted)
				return out
			}
			out.Index[td.Name] = r.Rows
		}
	}
	if probe != nil && probe.Insert != nil {
		r := db.Auto(probe.Insert.SQL())
		switch {
		case r.Fail != nil:
			out.Probe = "probe insert: " + r.Fail.String()
		case r.Err != "" || r.Aborted:
			out.Probe = fmt.Sprintf("probe insert refused: err=%q aborted=%v", r.Err, r.Aborted)
		default:
			q := db.Auto(probe.Select.SQL())
			if q.Fail != nil {
				out.Probe = "probe select: " + q.Fail.String()
			} else if len(q.Rows) != 1 {
				out.Probe = fmt.Sprintf("probe row not found after insert (%d rows)", len(q.Rows))
			}
		}
	}
	return out
}

func coreScratch() string {
	d := os.Getenv("VERIF_SCRATCH")
	if d == "" {
		d = fmt.Sprintf("/dev/shm/verif-scratch-%d", os.Getpid())
	}
	os.MkdirAll(d, 0o755)
	return d
}
