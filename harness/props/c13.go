package props

// C13 — the buffer pool always returns the latest bytes of a page.
// Engine A on the real BufferPoolManager (pool size 1..3) over the in-memory and the file disk
// manager; two users; state merging on the pool's private state read by reflection.

import (
	"encoding/binary"
	"encoding/json"
	"fmt"
	"os"
	"path/filepath"
	"reflect"
	"sort"
	"strings"
	"time"

	"github.com/ryogrid/SamehadaDB/lib/common"
	"github.com/ryogrid/SamehadaDB/lib/recovery"
	"github.com/ryogrid/SamehadaDB/lib/storage/buffer"
	"github.com/ryogrid/SamehadaDB/lib/storage/disk"
	"github.com/ryogrid/SamehadaDB/lib/storage/page"
	"github.com/ryogrid/SamehadaDB/lib/types"

	"verif/core"
)

const (
	c13Users   = 2
	c13TagOff  = 100
	c13MaxPins = 2
)

type c13Cfg struct {
	Pool    int  `json:"pool"`
	File    bool `json:"file"`
	MaxLive int  `json:"max_live"`
	MaxNew  int  `json:"max_new"`
	// Warm: the exploration starts from a pool whose every frame holds an unpinned dirty page (reached by
	// the operation prefix c13WarmPrefix, which is checked like any other history): evictions, the clock
	// hand and id reuse are then within a few operations
	Warm bool `json:"warm"`
}

type c13Inst struct {
	cfg     c13Cfg
	dm      disk.DiskManager
	bpm     *buffer.BufferPoolManager
	dir     string
	live    map[types.PageID]bool
	latest  map[types.PageID]uint32
	ver     map[types.PageID]uint32
	creator map[types.PageID]int
	pins    [c13Users]map[types.PageID]*page.Page
	must    [c13Users]map[types.PageID]bool // written since pin => must unpin dirty
	leaked  int                             // frames whose last pin was given up by a hash-join style deallocation
	news    int
	last    string
}

var c13Seq int

func newC13(cfg c13Cfg) *c13Inst {
	in := &c13Inst{cfg: cfg, live: map[types.PageID]bool{}, latest: map[types.PageID]uint32{}, ver: map[types.PageID]uint32{}, creator: map[types.PageID]int{}}
	for u := range in.pins {
		in.pins[u] = map[types.PageID]*page.Page{}
		in.must[u] = map[types.PageID]bool{}
	}
	if cfg.File {
		c13Seq++
		in.dir = filepath.Join(core.Scratch(), fmt.Sprintf("c13-%d", c13Seq))
		os.MkdirAll(in.dir, 0o755)
		in.dm = disk.NewDiskManagerImpl(filepath.Join(in.dir, "p.db"))
	} else {
		in.dm = disk.NewVirtualDiskManagerImpl("c13.db")
	}
	lg := c13LogFor(in.dm)
	in.bpm = buffer.NewBufferPoolManager(uint32(cfg.Pool), in.dm, lg)
	return in
}

// the log manager is large (two 528 KB buffers); logging is off in this driver, so a single one whose
// Flush writes zero bytes is shared.
var c13Log *recovery.LogManager
var c13LogDM disk.DiskManager

func c13LogFor(dm disk.DiskManager) *recovery.LogManager {
	if c13Log == nil {
		c13LogDM = disk.NewVirtualDiskManagerImpl("c13log.db")
		c13Log = recovery.NewLogManager(&c13LogDM)
	}
	return c13Log
}

func (in *c13Inst) Close() {
	if in.cfg.File {
		in.dm.ShutDown()
		os.RemoveAll(in.dir)
	}
}

func (in *c13Inst) LastOutcome() string { return in.last }

func (in *c13Inst) pinnedPages() int {
	set := map[types.PageID]bool{}
	for u := range in.pins {
		for p := range in.pins[u] {
			set[p] = true
		}
	}
	return len(set)
}

func (in *c13Inst) frameAvailable() bool { return in.pinnedPages()+in.leaked < in.cfg.Pool }

func (in *c13Inst) livePages() []types.PageID {
	var ps []types.PageID
	for p, l := range in.live {
		if l {
			ps = append(ps, p)
		}
	}
	sort.Slice(ps, func(i, j int) bool { return ps[i] < ps[j] })
	return ps
}

func (in *c13Inst) Enabled() []string {
	var ops []string
	lp := in.livePages()
	for u := 0; u < c13Users; u++ {
		if len(in.pins[u]) < c13MaxPins && in.frameAvailable() && len(lp) < in.cfg.MaxLive && in.news < in.cfg.MaxNew {
			ops = append(ops, fmt.Sprintf("New(%d)", u))
		}
	}
	for u := 0; u < c13Users; u++ {
		for _, p := range lp {
			if in.pins[u][p] == nil && len(in.pins[u]) < c13MaxPins {
				other := in.pins[1-u][p] != nil
				if other || in.frameAvailable() {
					ops = append(ops, fmt.Sprintf("Fetch(%d,%d)", u, p))
				}
			}
		}
	}
	for u := 0; u < c13Users; u++ {
		var ps []types.PageID
		for p := range in.pins[u] {
			ps = append(ps, p)
		}
		sort.Slice(ps, func(i, j int) bool { return ps[i] < ps[j] })
		for _, p := range ps {
			ops = append(ops, fmt.Sprintf("Write(%d,%d)", u, p))
			ops = append(ops, fmt.Sprintf("Unpin(%d,%d,1)", u, p))
			if !in.must[u][p] {
				ops = append(ops, fmt.Sprintf("Unpin(%d,%d,0)", u, p))
			}
			if in.pins[1-u][p] == nil {
				ops = append(ops, fmt.Sprintf("DeallocSL(%d,%d)", u, p))
				if in.creator[p] == u {
					ops = append(ops, fmt.Sprintf("DeallocNW(%d,%d)", u, p))
				}
			}
		}
	}
	for _, p := range lp {
		ops = append(ops, fmt.Sprintf("Flush(%d)", p))
		if in.pins[0][p] == nil && in.pins[1][p] == nil {
			// hash-join style deallocation of a temp page that was already unpinned by its creator
			ops = append(ops, fmt.Sprintf("DeallocNW(%d,%d)", in.creator[p], p))
		}
	}
	ops = append(ops, "FlushAll()", "FlushAllPages()")
	return ops
}

func tagOf(d *[common.PageSize]byte) uint32 { return binary.LittleEndian.Uint32(d[c13TagOff:]) }

func (in *c13Inst) write(pg *page.Page, p types.PageID) {
	in.ver[p]++
	tag := uint32(p+1)<<8 | (in.ver[p]%6 + 1)
	binary.LittleEndian.PutUint32(pg.Data()[c13TagOff:], tag)
	// also scribble elsewhere so that torn/misplaced copies show
	binary.LittleEndian.PutUint32(pg.Data()[common.PageSize-8:], tag)
	in.latest[p] = tag
}

// pageTable reads the pool's private page table (nil if the field cannot be read: the page-table
// invariant is then skipped and the state key is coarser).
func (in *c13Inst) pageTable() (out map[types.PageID]uint32) {
	defer func() {
		if r := recover(); r != nil {
			core.MarkUnreadable("BufferPoolManager.pageTable")
			out = nil
		}
	}()
	out = map[types.PageID]uint32{}
	pt := core.Field(in.bpm, "pageTable")
	for it := pt.MapRange(); it.Next(); {
		out[types.PageID(it.Key().Int())] = uint32(it.Value().Uint())
	}
	return out
}

func (in *c13Inst) Apply(op string) (viol *core.Violation) {
	var u, pi, d int
	kind := ""
	switch {
	case scan(op, "New(%d)", &u):
		kind = "New"
	case scan(op, "Fetch(%d,%d)", &u, &pi):
		kind = "Fetch"
	case scan(op, "Write(%d,%d)", &u, &pi):
		kind = "Write"
	case scan(op, "Unpin(%d,%d,%d)", &u, &pi, &d):
		kind = "Unpin"
	case scan(op, "Flush(%d)", &pi):
		kind = "Flush"
	case op == "FlushAll()":
		kind = "FlushAll"
	case op == "FlushAllPages()":
		kind = "FlushAllPages"
	case scan(op, "DeallocSL(%d,%d)", &u, &pi):
		kind = "DeallocSL"
	case scan(op, "DeallocNW(%d,%d)", &u, &pi):
		kind = "DeallocNW"
	default:
		panic("bad op " + op)
	}
	p := types.PageID(pi)
	cfgs := fmt.Sprintf("pool%d", in.cfg.Pool)
	bad := func(clause, detail string) *core.Violation {
		return &core.Violation{Property: "C13", Signature: "bpm/" + clause + "/" + kind, Detail: fmt.Sprintf("%s [%s file=%v]: %s", op, cfgs, in.cfg.File, detail)}
	}
	defer func() {
		if r := recover(); r != nil {
			viol = bad("call-does-not-return", fmt.Sprint(r))
		}
	}()
	in.last = "ok"
	switch kind {
	case "New":
		pg := in.bpm.NewPage()
		if pg == nil {
			return bad("no-frame", "NewPage returned nil although an unpinned or free frame must exist")
		}
		id := pg.GetPageID()
		if in.live[id] {
			return bad("new-id-in-use", fmt.Sprintf("NewPage returned page id %d which is still in use", id))
		}
		if _, seen := in.creator[id]; seen {
			in.last = "reused-id"
		}
		in.news++
		in.live[id] = true
		in.creator[id] = u
		in.pins[u][id] = pg
		if tagOf(pg.Data()) != 0 {
			return bad("new-page-not-empty", fmt.Sprintf("new page %d carries bytes of an older page (tag %#x)", id, tagOf(pg.Data())))
		}
		in.latest[id] = 0
		// the creator initialises the page (as every caller of NewPage does) and therefore unpins dirty
		in.write(pg, id)
		in.must[u][id] = true
	case "Fetch":
		wasResident := true
		if pt := in.pageTable(); pt != nil {
			_, wasResident = pt[p]
		}
		pg := in.bpm.FetchPage(p)
		if pg == nil {
			return bad("fetch-nil", fmt.Sprintf("FetchPage(%d) returned nil for a live page", p))
		}
		if pg.GetPageID() != p {
			return bad("fetch-wrong-page", fmt.Sprintf("FetchPage(%d) returned page %d", p, pg.GetPageID()))
		}
		if got := tagOf(pg.Data()); got != in.latest[p] {
			return bad("stale-bytes", fmt.Sprintf("FetchPage(%d) returned tag %#x, latest written %#x", p, got, in.latest[p]))
		}
		in.pins[u][p] = pg
		in.must[u][p] = false
		if !wasResident {
			in.last = "from-disk"
		}
	case "Write":
		in.write(in.pins[u][p], p)
		in.must[u][p] = true
	case "Unpin":
		if err := in.bpm.UnpinPage(p, d == 1); err != nil {
			return bad("unpin-error", err.Error())
		}
		delete(in.pins[u], p)
		delete(in.must[u], p)
	case "Flush":
		in.bpm.FlushPage(p)
	case "FlushAll":
		in.bpm.FlushAllDirtyPages()
	case "FlushAllPages":
		in.bpm.FlushAllPages() // what shutdown does
	case "DeallocSL":
		// skip-list style: mark, return the pin, then log the deallocation; the frame is reclaimed lazily
		in.pins[u][p].SetIsDeallocated(true)
		in.bpm.UnpinPage(p, true)
		in.bpm.DeallocatePage(p, false)
		delete(in.pins[u], p)
		delete(in.must[u], p)
		in.live[p] = false
	case "DeallocNW":
		// hash-join style: immediate deallocation of a temp page by its creator; the creator's last pin
		// (if it still holds one) is never returned
		in.bpm.DeallocatePage(p, true)
		if in.pins[u][p] != nil {
			in.leaked++
			in.last = "pinned"
			delete(in.pins[u], p)
			delete(in.must[u], p)
		}
		in.live[p] = false
	}
	return in.invariants(kind, bad)
}

func scan(s, f string, a ...any) bool {
	n, err := fmt.Sscanf(s, f, a...)
	if err != nil || n != len(a) {
		return false
	}
	// Sscanf accepts prefixes: make sure the whole op matched
	vals := make([]any, len(a))
	for i := range a {
		vals[i] = *(a[i].(*int))
	}
	return fmt.Sprintf(f, vals...) == s
}

func (in *c13Inst) invariants(kind string, bad func(string, string) *core.Violation) *core.Violation {
	pt := in.pageTable()
	frames := in.bpm.GetPages()
	// I2: page table entries point to distinct frames holding that page
	seenF := map[uint32]types.PageID{}
	for p, f := range pt {
		if int(f) >= len(frames) || frames[f] == nil {
			return bad("page-table", fmt.Sprintf("page %d mapped to empty frame %d", p, f))
		}
		if frames[f].GetPageID() != p {
			return bad("page-table", fmt.Sprintf("page %d mapped to frame %d which holds page %d", p, f, frames[f].GetPageID()))
		}
		if o, ok := seenF[f]; ok {
			return bad("frame-shared", fmt.Sprintf("frame %d is mapped by pages %d and %d", f, o, p))
		}
		seenF[f] = p
	}
	// I1/I6: pinned pages stay resident in the frame (object) the user was given, with the right pin count
	for u := range in.pins {
		for p, pg := range in.pins[u] {
			f, ok := pt[p]
			if !ok {
				return bad("pinned-page-evicted", fmt.Sprintf("page %d is pinned by user %d but no longer in the pool", p, u))
			}
			if frames[f] != pg {
				return bad("pinned-page-moved", fmt.Sprintf("page %d is pinned by user %d but its frame now holds another page object", p, u))
			}
		}
	}
	for _, p := range in.livePages() {
		want := int32(0)
		for u := range in.pins {
			if in.pins[u][p] != nil {
				want++
			}
		}
		if f, ok := pt[p]; ok {
			if got := frames[f].PinCount(); got != want {
				return bad("pin-count", fmt.Sprintf("page %d pin count %d, users hold %d", p, got, want))
			}
			// I3 (resident)
			if got := tagOf(frames[f].Data()); got != in.latest[p] {
				return bad("resident-bytes", fmt.Sprintf("resident page %d holds tag %#x, latest written %#x", p, got, in.latest[p]))
			}
			// I4: a resident page that nobody has pinned and that is not marked dirty will be dropped without
			// a write when it becomes a victim: the disk must already hold its latest bytes
			if want == 0 && !frames[f].IsDirty() {
				buf := make([]byte, common.PageSize)
				if err := in.dm.ReadPage(p, buf); err != nil {
					return bad("clean-page-not-on-disk", fmt.Sprintf("page %d is resident, unpinned and clean but not readable from disk: %v", p, err))
				}
				if got := binary.LittleEndian.Uint32(buf[c13TagOff:]); got != in.latest[p] {
					return bad("clean-page-differs-from-disk", fmt.Sprintf("page %d is resident, unpinned and clean, the disk holds tag %#x, latest written %#x", p, got, in.latest[p]))
				}
			}
		} else {
			// I3 (on disk): a live page that is not resident must be on disk with its latest bytes
			buf := make([]byte, common.PageSize)
			if err := in.dm.ReadPage(p, buf); err != nil {
				return bad("disk-bytes", fmt.Sprintf("live page %d is neither resident nor readable from disk: %v", p, err))
			}
			if got := binary.LittleEndian.Uint32(buf[c13TagOff:]); got != in.latest[p] {
				return bad("disk-bytes", fmt.Sprintf("live page %d is not resident and the disk holds tag %#x, latest written %#x", p, got, in.latest[p]))
			}
		}
	}
	return nil
}

// Key renders the private state of the pool canonically.
func (in *c13Inst) Key() string {
	var sb strings.Builder
	pt := in.pageTable()
	var ids []int
	for p := range pt {
		ids = append(ids, int(p))
	}
	sort.Ints(ids)
	for _, p := range ids {
		fmt.Fprintf(&sb, "%d>%d ", p, pt[types.PageID(p)])
	}
	sb.WriteString("|")
	for f, pg := range in.bpm.GetPages() {
		if pg == nil {
			fmt.Fprintf(&sb, "%d:nil ", f)
			continue
		}
		fmt.Fprintf(&sb, "%d:%d,%d,%v,%v,%x ", f, pg.GetPageID(), pg.PinCount(), pg.IsDirty(), pg.IsDeallocated(), tagOf(pg.Data()))
	}
	fmt.Fprintf(&sb, "|free%s|reuse%s|%s|",
		core.Safe("BufferPoolManager.freeList", func() string { return core.DumpV(core.Field(in.bpm, "freeList")) }),
		core.Safe("BufferPoolManager.reUsablePageList", func() string { return core.DumpV(core.Field(in.bpm, "reUsablePageList")) }),
		core.Safe("BufferPoolManager.replacer (clock list)", func() string { return replacerKey(in.bpm) }))
	// disk image and model
	var all []int
	for p := range in.creator {
		all = append(all, int(p))
	}
	sort.Ints(all)
	buf := make([]byte, common.PageSize)
	for _, pi := range all {
		p := types.PageID(pi)
		dt := "-"
		if err := in.dm.ReadPage(p, buf); err == nil {
			dt = fmt.Sprintf("%x", binary.LittleEndian.Uint32(buf[c13TagOff:]))
		}
		fmt.Fprintf(&sb, "%d:d%s,l%v,t%x,v%d,c%d,", p, dt, in.live[p], in.latest[p], in.ver[p]%6, in.creator[p])
		for u := range in.pins {
			if in.pins[u][p] != nil {
				fmt.Fprintf(&sb, "u%d%v", u, in.must[u][p])
			}
		}
		sb.WriteString(" ")
	}
	fmt.Fprintf(&sb, "|leak%d", in.leaked)
	return sb.String()
}

// replacerKey renders the clock replacer: list order, reference bits and where the hand is.
func replacerKey(bpm *buffer.BufferPoolManager) string {
	r := core.Field(bpm, "replacer").Elem()
	cl := r.FieldByName("cList").Elem()
	size := int(cl.FieldByName("size").Uint())
	var sb strings.Builder
	hand := r.FieldByName("clockHand") // **node
	handAddr := hand.Pointer()
	owner := "detached"
	if handAddr == cl.FieldByName("head").UnsafeAddr() {
		owner = "head"
	}
	n := cl.FieldByName("head")
	members := map[uintptr]bool{}
	for i := 0; i < size && !n.IsNil(); i++ {
		e := n.Elem()
		fmt.Fprintf(&sb, "%d%v,", e.FieldByName("key").Uint(), e.FieldByName("value").Bool())
		members[n.Pointer()] = true
		if e.FieldByName("next").UnsafeAddr() == handAddr {
			owner = fmt.Sprintf("next-of-%d", e.FieldByName("key").Uint())
		}
		n = e.FieldByName("next")
	}
	target := "nil"
	if !hand.IsNil() && !hand.Elem().IsNil() {
		t := hand.Elem()
		target = fmt.Sprintf("%d", t.Elem().FieldByName("key").Uint())
		if !members[t.Pointer()] {
			target += "(removed)"
		}
	}
	return fmt.Sprintf("clock[%s hand=%s->%s]", sb.String(), owner, target)
}

func c13Configs(thorough bool) []c13Cfg {
	var out []c13Cfg
	for _, file := range []bool{false, true} {
		for pool := 1; pool <= 3; pool++ {
			out = append(out, c13Cfg{Pool: pool, File: file, MaxLive: 3, MaxNew: 1000})
		}
	}
	out = append(out, c13Cfg{Pool: 2, MaxLive: 4, MaxNew: 1000, Warm: true}, c13Cfg{Pool: 3, MaxLive: 5, MaxNew: 1000, Warm: true})
	return out
}

func c13WarmPrefix(pool int) []string {
	var ops []string
	for i := 0; i < pool; i++ {
		ops = append(ops, "New(0)", fmt.Sprintf("Unpin(0,%d,1)", i))
	}
	return ops
}

func c13Depth(thorough bool, pool int) int {
	if thorough {
		return 9
	}
	return 7
}

func init() {
	core.Register(&core.Driver{
		Prop: "C13",
		Budget: func(tier string) time.Duration {
			if tier == "thorough" {
				return 25 * time.Minute
			}
			return 120 * time.Second
		},
		Assume: []string{
			"A2 API contract: the creator of a new page writes it and unpins it dirty; a user that wrote a page unpins it dirty; FetchPage only for live page ids; at most 2 pins per user and one pin per (user,page)",
			"deallocation only in the two call patterns the code base uses: hash-join style DeallocatePage(p, noWait=true) by the creator (the creator's last pin, if still held, is never returned - the frame is then NOT assumed to be reclaimed), skip-list style SetIsDeallocated -> UnpinPage -> DeallocatePage(p,false) by the only pin holder",
			"New/Fetch are only issued when the model knows a frame that is neither pinned nor given up exists (an exhausted pool panics by design)",
			"Engine C part: two or three goroutines, each writing its own byte lane of shared pages, on 1-3 frames; a fetch that finds every frame pinned returns nil and the step is skipped (legal); the scenario with FlushAllDirtyPages over two resident pages contains map-order nondeterminism and is reported as not exhaustive",
		},
		Run: func(c *core.Ctx) {
			for _, cfg := range c13Configs(c.Thorough()) {
				cfg := cfg
				name := fmt.Sprintf("c13pool%d", cfg.Pool)
				if cfg.File {
					name += "file"
				}
				sc := core.SeqConfig{Name: name, Params: cfg, Fresh: func() core.Instance { return newC13(cfg) }, MaxDepth: c13Depth(c.Thorough(), cfg.Pool), SplitDepth: 2}
				if cfg.Warm {
					sc.Name += "-warm"
					sc.Seeds = [][]string{c13WarmPrefix(cfg.Pool)}
					sc.MaxDepth = 5
					if c.Thorough() {
						sc.MaxDepth = 6
					}
				}
				core.BFS(c, sc)
			}
			if c.Shard == 0 {
				c13Reopen(c.Res)
			}
			for _, sc := range c13cScenarios(c.Thorough()) {
				if c.Expired() {
					return
				}
				core.ExploreSched(c, sc)
			}
		},
		Replay: func(raw json.RawMessage) (string, bool) {
			var rp struct {
				History  []string `json:"history"`
				Params   c13Cfg   `json:"params"`
				Scenario string   `json:"scenario"`
				Choices  []int    `json:"choices"`
				RPages   int      `json:"reopen_pages"`
				RTail    int      `json:"reopen_tail"`
			}
			json.Unmarshal(raw, &rp)
			if rp.RPages > 0 {
				dir := filepath.Join(core.Scratch(), "c13r-replay")
				os.MkdirAll(dir, 0o755)
				defer os.RemoveAll(dir)
				path := filepath.Join(dir, "p.db")
				os.WriteFile(path, make([]byte, rp.RPages*common.PageSize+rp.RTail), 0o644)
				dm := disk.NewDiskManagerImpl(path)
				got := dm.AllocatePage()
				dm.ShutDown()
				inUse := rp.RPages
				if rp.RTail > 0 {
					inUse++
				}
				return fmt.Sprintf("file of %d pages + %d bytes reopened: first AllocatePage returns %d, ids 0..%d have bytes in the file", rp.RPages, rp.RTail, got, inUse-1), int(got) < inUse
			}
			if rp.Scenario != "" {
				for _, sc := range c13cScenarios(true) {
					if sc.Name == rp.Scenario {
						x, v, out, div := core.RunSchedule(sc, rp.Choices)
						desc := fmt.Sprintf("%s: schedule of %d points -> %s %s", sc.Name, len(x.Trace), out, div)
						for i, p := range x.Trace {
							desc += fmt.Sprintf("\n  point %d: thread %d arrives at %v obj %d; enabled %v, chosen index %d", i, p.Thread, p.Kind, p.Obj, p.Enabled, p.Chosen)
						}
						if v != nil {
							return desc + "\n" + v.Detail, true
						}
						return desc, false
					}
				}
				return "scenario not found: " + rp.Scenario, false
			}
			return core.ReplayHistory(func() core.Instance { return newC13(rp.Params) }, rp.History)
		},
	})
	_ = reflect.TypeOf
}

// c13Reopen: "a newly allocated page id is never one that is still in use", across a reopen of the file disk
// manager. The data file holds p whole pages and a tail of t bytes (t > 0: the first write of page p was cut
// by a crash - the page exists on disk, redo will fetch it). For every (p, t) of the enumeration the file is
// reopened with the repository's NewDiskManagerImpl and the first AllocatePage must not return an id that
// has bytes in the file.
func c13Reopen(res *core.Result) {
	res.Bound["reopen_file_disk_manager"] = "file of p = 1..4 whole pages + tail of t in {0, 1, 511, 512, 2048, 4095} bytes: first id handed out after the reopen"
	n := int64(0)
	for p := 1; p <= 4; p++ {
		for _, t := range []int{0, 1, 511, 512, 2048, 4095} {
			c13Seq++
			dir := filepath.Join(core.Scratch(), fmt.Sprintf("c13r-%d", c13Seq))
			os.MkdirAll(dir, 0o755)
			path := filepath.Join(dir, "p.db")
			os.WriteFile(path, make([]byte, p*common.PageSize+t), 0o644)
			var got types.PageID
			f := guard(func() {
				dm := disk.NewDiskManagerImpl(path)
				got = dm.AllocatePage()
				dm.ShutDown()
			})
			os.RemoveAll(dir)
			n++
			inUse := p // ids 0..p-1 are whole pages
			if t > 0 {
				inUse = p + 1 // page p exists partially
			}
			if f != nil {
				res.Violate(&core.Violation{Property: "C13", Signature: "reopen/" + f.Kind + "@" + f.Where, Detail: fmt.Sprintf("file of %d pages + %d bytes: %s", p, t, f.String()),
					Replay: map[string]any{"reopen_pages": p, "reopen_tail": t}})
				return
			}
			if int(got) < inUse {
				res.Outcome("VIOLATION:reopen/new-id-in-use")
				res.Violate(&core.Violation{Property: "C13", Signature: "reopen/new-id-in-use",
					Detail:  fmt.Sprintf("data file of %d whole pages and a tail of %d bytes reopened: the first AllocatePage returns id %d, but ids 0..%d have bytes in the file (the last one was cut by a crash and will be fetched by redo)", p, t, got, inUse-1),
					Replay: map[string]any{"reopen_pages": p, "reopen_tail": t}})
				return
			}
		}
	}
	res.PerOp["reopen-configurations"] += n
	res.Outcome("reopen:first-id-beyond-the-file")
}
